#!/bin/bash
# usage: ./check.sh <ID> quick|thorough        run one property check against /repo's working tree
#        ./check.sh <ID> --replay <file>       re-run the oracle on one saved case
# exit 0: property held on everything explored; 1: VIOLATION line printed; 2: inconclusive / harness problem
set -u
HERE="$(cd "$(dirname "$0")" && pwd)"
export VERIF_DIR="$HERE"
cd "$HERE/harness" || exit 2
export CARGO_NET_OFFLINE=true
export RUST_BACKTRACE=0
ID="${1:-}"
[ -n "$ID" ] || { echo "usage: check.sh <ID> quick|thorough"; exit 2; }
mkdir -p "$HERE/evidence" "$HERE/harness/target"
LOG="$HERE/harness/target/build-$$.log"
if ! cargo build --quiet --profile checked >"$LOG" 2>&1; then
  # Does /repo itself still compile? If yes the harness is at fault; either way this is not a property violation.
  echo "INCONCLUSIVE property=$ID reason=harness-or-repo-build-failed (see below)"
  tail -40 "$LOG"
  rm -f "$LOG"
  exit 2
fi
rm -f "$LOG"
exec ./target/checked/vcheck "$@"
