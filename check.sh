#!/bin/bash
# usage: ./check.sh <ID> quick|thorough        run one property check against /repo's working tree
#        ./check.sh <ID> --replay <file>       re-run the oracle on one saved case
# exit 0: property held on everything explored; 1: VIOLATION line printed; 2: inconclusive / harness problem
set -u
HERE="$(cd "$(dirname "$0")" && pwd)"
export VERIF_DIR="$HERE"
cd "$HERE/harness" || exit 2
export CARGO_NET_OFFLINE=true
export RUST_BACKTRACE=0
ID="${1:-}"
[ -n "$ID" ] || { echo "usage: check.sh <ID> quick|thorough"; exit 2; }
mkdir -p "$HERE/evidence" "$HERE/harness/target"
LOG="$HERE/harness/target/build-$$.log"
if ! cargo build --quiet --profile checked >"$LOG" 2>&1; then
  # Does /repo itself still compile? If yes the harness is at fault; either way this is not a property violation.
  echo "INCONCLUSIVE property=$ID reason=harness-or-repo-build-failed (see below)"
  tail -40 "$LOG"
  rm -f "$LOG"
  exit 2
fi
rm -f "$LOG"
if [ "$ID" = "C16" ] || [ "$ID" = "c16" ]; then
  # extra build profiles for the cross-profile differential, and the Send+Sync crate
  for prof in fast dev0; do
    if ! cargo build --quiet --profile $prof >"$LOG" 2>&1; then
      echo "INCONCLUSIVE property=$ID reason=profile-$prof-build-failed"; tail -20 "$LOG"; rm -f "$LOG"; exit 2
    fi
  done
  TLOG="$HERE/harness/target/c16-traits.log"
  if (cd c16_traits && cargo check --quiet --target-dir ../target/c16 >"$TLOG" 2>&1); then
    export C16_TRAITS=ok
  elif grep -q -E "cannot be (sent|shared) between threads safely" "$TLOG"; then
    export C16_TRAITS="fail:$TLOG"
  else
    echo "INCONCLUSIVE property=$ID reason=c16_traits-crate-build-failed"; tail -20 "$TLOG"; exit 2
  fi
fi
exec ./target/checked/vcheck "$@"
