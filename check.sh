#!/bin/bash
# usage: ./check.sh <ID> quick|thorough        run one property check against /repo's working tree
#        ./check.sh <ID> --replay <file>       re-run the oracle on one saved case
# exit 0: property held on everything explored; 1: VIOLATION line printed; 2: inconclusive / harness problem
# Optional (sensitivity self-test only): VERIF_REPO=<copy of /repo> builds against that copy via a cargo
# path override into VERIF_TARGET and writes evidence under VERIF_OUT instead of this directory.
set -u
HERE="$(cd "$(dirname "$0")" && pwd)"
export VERIF_DIR="$HERE"
cd "$HERE/harness" || exit 2
export CARGO_NET_OFFLINE=true
export RUST_BACKTRACE=0
ID="${1:-}"
[ -n "$ID" ] || { echo "usage: check.sh <ID> quick|thorough"; exit 2; }
CARGO_EXTRA=()
if [ -n "${VERIF_REPO:-}" ]; then
  export VERIF_TARGET="${VERIF_TARGET:-/tmp/asemut-target}"
  export VERIF_OUT="${VERIF_OUT:-/tmp/asemut-out}"
  CARGO_EXTRA=(--config "paths=[\"$VERIF_REPO\"]")
else
  export VERIF_TARGET="$HERE/harness/target"
  export VERIF_OUT="${VERIF_OUT:-$HERE}"
fi
mkdir -p "$VERIF_OUT/evidence" "$VERIF_TARGET"
LOG="$VERIF_TARGET/build-$$.log"
build() { cargo build --quiet --profile "$1" --target-dir "$VERIF_TARGET" "${CARGO_EXTRA[@]}" >"$LOG" 2>&1; }
if ! build checked; then
  # a build failure (of /repo or of the harness) is never a property violation - with one exception: the
  # harness shares &AsepriteFile across threads, so a sprite type that stopped being Send + Sync breaks the
  # harness build too. For C16 that compile-time fact IS the violation (decided by the c16_traits crate).
  if [ "$ID" = "C16" ] || [ "$ID" = "c16" ]; then
    TLOG="$VERIF_TARGET/c16-traits.log"
    if ! (cd c16_traits && cargo check --quiet --target-dir "$VERIF_TARGET/c16" "${CARGO_EXTRA[@]}" >"$TLOG" 2>&1) && grep -q -E "cannot be (sent|shared) between threads safely" "$TLOG"; then
      mkdir -p "$VERIF_OUT/evidence/replay"
      cp "$TLOG" "$VERIF_OUT/evidence/replay/C16-traits-build.log"
      TIER="${2:-quick}"; [ "$TIER" = "thorough" ] || TIER=quick
      cat > "$VERIF_OUT/evidence/C16.json" <<JSON
{"property_id": "C16", "tier": "$TIER", "seed": ${VERIF_SEED:-1}, "level": "exploration", "wall_s": 0.0, "violations": 1,
 "coverage": {"evaluations": 1, "distinct_nontrivial": 2, "rule": "compile-time clause only: the c16_traits crate (Send + Sync instantiated for AsepriteFile and its reference types) failed to compile with a Send/Sync error; the run-time part of the check could not be built for the same reason. distinct_nontrivial counts the two trait obligations (Send, Sync) that were attempted",
  "samples": ["assert_send_sync::<asefile::AsepriteFile>()"], "compiler_log": "$VERIF_OUT/evidence/replay/C16-traits-build.log"}}
JSON
      echo "  failure [not-send-sync]: the sprite type (or a reference type handed out by it) is no longer Send + Sync"
      grep -E "cannot be (sent|shared) between threads safely" "$TLOG" | head -3
      echo "VIOLATION property=C16 replay=$VERIF_OUT/evidence/replay/C16-traits-build.log"
      rm -f "$LOG"
      exit 1
    fi
  fi
  echo "INCONCLUSIVE property=$ID reason=harness-or-repo-build-failed (see below)"
  grep -E "^error" -A 12 "$LOG" | head -60
  rm -f "$LOG"
  exit 2
fi
if [ "$ID" = "C04" ] || [ "$ID" = "c04" ]; then
  build dev0 || true   # unoptimised workers: stress shapes (both tiers) and a sample of hostile files
fi
if [ "$ID" = "C16" ] || [ "$ID" = "c16" ]; then
  # extra build profiles for the cross-profile differential, and the Send+Sync crate
  for prof in fast dev0; do
    if ! build $prof; then
      echo "INCONCLUSIVE property=$ID reason=profile-$prof-build-failed"; grep -E "^error" -A 12 "$LOG" | head -40; rm -f "$LOG"; exit 2
    fi
  done
  # the same harness against the library built WITHOUT its optional `utils` feature
  if ! cargo build --quiet --profile fast --no-default-features --target-dir "$VERIF_TARGET/noutils" "${CARGO_EXTRA[@]}" >"$LOG" 2>&1; then
    echo "INCONCLUSIVE property=$ID reason=no-utils-build-failed"; grep -E "^error" -A 12 "$LOG" | head -40; rm -f "$LOG"; exit 2
  fi
  TLOG="$VERIF_TARGET/c16-traits.log"
  if (cd c16_traits && cargo check --quiet --target-dir "$VERIF_TARGET/c16" "${CARGO_EXTRA[@]}" >"$TLOG" 2>&1); then
    export C16_TRAITS=ok
  elif grep -q -E "cannot be (sent|shared) between threads safely" "$TLOG"; then
    export C16_TRAITS="fail:$TLOG"
  else
    echo "INCONCLUSIVE property=$ID reason=c16_traits-crate-build-failed"; grep -E "^error" -A 12 "$TLOG" | head -40; exit 2
  fi
fi
rm -f "$LOG"
exec "$VERIF_TARGET/checked/vcheck" "$@"
