#!/opt/veriftools/pyvenv/bin/python
import json,jsonschema,sys,glob
jsonschema.validate(json.load(open('/verif/MANIFEST.json')),json.load(open('/root/.vp/MANIFEST.schema.json')))
s=json.load(open('/root/.vp/EVIDENCE.schema.json'))
for f in sorted(glob.glob('/verif/evidence/C*.json')):
    jsonschema.validate(json.load(open(f)),s)
print('valid')
