#![no_main]
//! Property target: the input is a generator tape (little-endian u32 words); the property named by the
//! environment variable VFUZZ_PROP builds its case from the tape and runs its own oracle. A failure panics.
use libfuzzer_sys::fuzz_target;

fuzz_target!(|data: &[u8]| {
    static PROP: std::sync::OnceLock<String> = std::sync::OnceLock::new();
    let id = PROP.get_or_init(|| std::env::var("VFUZZ_PROP").unwrap_or_else(|_| "C01".into()));
    let tape: Vec<u32> = data.chunks(4).map(|c| {
        let mut w = [0u8; 4];
        w[..c.len()].copy_from_slice(c);
        u32::from_le_bytes(w)
    }).collect();
    vcheck::fuzzstage::fuzz_tape(id, &tape);
});
