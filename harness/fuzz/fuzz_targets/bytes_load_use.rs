#![no_main]
//! Byte-level target: any input either fails to load with an error value or loads and is then
//! fully usable (C04 + C05 oracle inside the target; panics and aborts are the findings).
use libfuzzer_sys::fuzz_target;

fuzz_target!(|data: &[u8]| {
    vcheck::props::robust::fuzz_one(data);
});
