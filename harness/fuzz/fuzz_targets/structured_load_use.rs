#![no_main]
//! Structured target: the input is decoded as a generator tape (little-endian u32 words) from
//! which a hostile file is BUILT (well-formed model -> hostile tweaks -> encode -> field patches ->
//! structural edits), so the fuzzer's mutations act on generator choices rather than on bytes that
//! die in input validation. Same oracle as bytes_load_use.
use libfuzzer_sys::fuzz_target;

fuzz_target!(|data: &[u8]| {
    let tape: Vec<u32> = data.chunks(4).map(|c| {
        let mut w = [0u8; 4];
        w[..c.len()].copy_from_slice(c);
        u32::from_le_bytes(w)
    }).collect();
    let built = vcheck::props::robust::build_hostile(&tape);
    vcheck::props::robust::fuzz_one(&built.bytes);
});
