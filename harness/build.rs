fn main() {
    println!("cargo:rerun-if-changed=build.rs");
    println!("cargo:rerun-if-changed=cref/aseprite_blend.cc");
    cc::Build::new()
        .cpp(true)
        .compiler("clang++")
        .file("cref/aseprite_blend.cc")
        .flag("-std=c++17")
        .flag("-O1")
        .flag("-ffp-contract=off")
        .flag("-fno-fast-math")
        .flag("-Wno-unused-function")
        .flag("-Wno-unused-parameter")
        .flag("-Wno-sign-compare")
        .flag("-Wno-unused-const-variable")
        .cpp_link_stdlib(None)
        .compile("aseprite_blend");
}
