fn main() {
    println!("cargo:rerun-if-changed=build.rs");
}
