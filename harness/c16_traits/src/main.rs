//! C16, compile-time clause: the sprite type (and the reference types handed out by it) are
//! Send + Sync. This crate failing to compile with a Send/Sync error is the violation.
fn assert_send_sync<T: Send + Sync>() {}

fn main() {
    assert_send_sync::<asefile::AsepriteFile>();
    assert_send_sync::<asefile::Frame<'static>>();
    assert_send_sync::<asefile::Layer<'static>>();
    assert_send_sync::<asefile::Cel<'static>>();
    assert_send_sync::<asefile::Tilemap<'static>>();
    assert_send_sync::<asefile::Tileset>();
    assert_send_sync::<asefile::TilesetsById>();
    assert_send_sync::<asefile::ColorPalette>();
    assert_send_sync::<asefile::Tag>();
    assert_send_sync::<asefile::Slice>();
    assert_send_sync::<asefile::ExternalFilesById>();
    assert_send_sync::<asefile::UserData>();
    assert_send_sync::<asefile::util::PaletteMapper>();
}
