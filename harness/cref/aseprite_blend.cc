// Reference blend implementation for C03: Aseprite's doc/blend_funcs.cpp ("new layer blending
// method"), kept as close to the C++ source as possible so that C integer promotion, uint8_t
// truncation in rgba(), arithmetic shifts of negative ints and int(255.0*x) behave as in Aseprite.
//
// Verbatim from /repo/ref/dummy.cc: MUL_UN8, rgba()/getters, rgba_blender_merge,
// rgba_blender_normal, rgba_blender_multiply, RGBA_BLENDER_N, lum/sat/clip_color/set_lum and the
// macro-based set_sat (the Aseprite sort quirk), the hsl_saturation body (with set_sat, as Aseprite
// ships it; the repository's experiment calls set_sat2 instead).
// From the macro texts quoted in /repo/src/blend.rs: blend_screen, blend_overlay, blend_hard_light,
// blend_exclusion, DIV_UN8. The remaining functions are transcribed from upstream blend_funcs.cpp.
#include <stdint.h>
#include <stddef.h>
#include <cmath>

typedef uint32_t color_t;

#define ONE_HALF 0x80
#define G_SHIFT 8
#define MASK 0xff

const uint32_t rgba_r_shift = 0;
const uint32_t rgba_g_shift = 8;
const uint32_t rgba_b_shift = 16;
const uint32_t rgba_a_shift = 24;

const uint32_t rgba_rgb_mask = 0x00ffffff;
const uint32_t rgba_a_mask = 0xff000000;

static inline uint8_t rgba_getr(uint32_t c) { return (c >> rgba_r_shift) & 0xff; }
static inline uint8_t rgba_getg(uint32_t c) { return (c >> rgba_g_shift) & 0xff; }
static inline uint8_t rgba_getb(uint32_t c) { return (c >> rgba_b_shift) & 0xff; }
static inline uint8_t rgba_geta(uint32_t c) { return (c >> rgba_a_shift) & 0xff; }

static inline uint32_t rgba(uint8_t r, uint8_t g, uint8_t b, uint8_t a) {
  return ((r << rgba_r_shift) |
          (g << rgba_g_shift) |
          (b << rgba_b_shift) |
          ((uint32_t)a << rgba_a_shift));
}

#define MUL_UN8(a, b, t)                                             \
    ((t) = (a) * (uint16_t)(b) + ONE_HALF, ((((t) >> G_SHIFT ) + (t) ) >> G_SHIFT ))

#define DIV_UN8(a, b)                                                \
    (((uint16_t) (a) * MASK + ((b) / 2)) / (b))

#undef MIN
#undef MAX
#undef ABS
#define MIN(x,y)     (((x) < (y)) ? (x) : (y))
#define MAX(x,y)     (((x) > (y)) ? (x) : (y))
#define ABS(x)       (((x) >= 0) ? (x) : -(x))

#define blend_multiply(b, s, t)   (MUL_UN8((b), (s), (t)))
#define blend_screen(b, s, t)     ((b) + (s) - MUL_UN8((b), (s), (t)))
#define blend_overlay(b, s, t)    (blend_hard_light(s, b, t))
#define blend_darken(b, s)        (MIN((b), (s)))
#define blend_lighten(b, s)       (MAX((b), (s)))
#define blend_hard_light(b, s, t) ((s) < 128 ?                          \
                                   blend_multiply((b), (s)<<1, (t)):    \
                                   blend_screen((b), ((s)<<1)-255, (t)))
#define blend_difference(b, s)    (ABS((b) - (s)))
#define blend_exclusion(b, s, t)  ((t) = MUL_UN8((b), (s), (t)), ((b) + (s) - 2*(t)))

static int g_undefined = 0;

static inline uint32_t blend_divide(uint32_t b, uint32_t s)
{
  if (b == 0)
    return 0;
  else if (b >= s)
    return 255;
  else
    return DIV_UN8(b, s); // return b / s
}

static inline uint32_t blend_color_dodge(uint32_t b, uint32_t s)
{
  if (b == 0)
    return 0;

  s = (255 - s);
  if (b >= s)
    return 255;
  else
    return DIV_UN8(b, s); // return b / (1-s)
}

static inline uint32_t blend_color_burn(uint32_t b, uint32_t s)
{
  if (b == 255)
    return 255;

  b = (255 - b);
  if (b >= s)
    return 0;
  else
    return 255 - DIV_UN8(b, s); // return 1 - ((1-b)/s)
}

static inline uint32_t blend_soft_light(uint32_t _b, uint32_t _s)
{
  double b = _b / 255.0;
  double s = _s / 255.0;
  double r, d;

  if (b <= 0.25)
    d = ((16*b-12)*b+4)*b;
  else
    d = std::sqrt(b);

  if (s <= 0.5)
    r = b - (1.0 - 2.0 * s) * b * (1.0 - b);
  else
    r = b + (2.0 * s - 1.0) * (d - b);

  double v = r * 255 + 0.5;
  if (!(v > -1.0 && v < 4294967296.0)) { g_undefined = 1; return 0; }
  return (uint32_t)(v);
}

color_t rgba_blender_merge(color_t backdrop, color_t src, int opacity)
{
  int Br, Bg, Bb, Ba;
  int Sr, Sg, Sb, Sa;
  int Rr, Rg, Rb, Ra;
  int t;

  Br = rgba_getr(backdrop);
  Bg = rgba_getg(backdrop);
  Bb = rgba_getb(backdrop);
  Ba = rgba_geta(backdrop);

  Sr = rgba_getr(src);
  Sg = rgba_getg(src);
  Sb = rgba_getb(src);
  Sa = rgba_geta(src);

  if (Ba == 0) {
    Rr = Sr;
    Rg = Sg;
    Rb = Sb;
  }
  else if (Sa == 0) {
    Rr = Br;
    Rg = Bg;
    Rb = Bb;
  }
  else {
    Rr = Br + MUL_UN8((Sr - Br), opacity, t);
    Rg = Bg + MUL_UN8((Sg - Bg), opacity, t);
    Rb = Bb + MUL_UN8((Sb - Bb), opacity, t);
  }
  Ra = Ba + MUL_UN8((Sa - Ba), opacity, t);
  if (Ra == 0)
    Rr = Rg = Rb = 0;

  return rgba(Rr, Rg, Rb, Ra);
}

color_t rgba_blender_normal(color_t backdrop, color_t src, int opacity)
{
  int t;

  if (!(backdrop & rgba_a_mask)) {
    int a = rgba_geta(src);
    a = MUL_UN8(a, opacity, t);
    a <<= rgba_a_shift;
    return (src & rgba_rgb_mask) | a;
  }
  else if (!(src & rgba_a_mask)) {
    return backdrop;
  }

  const int Br = rgba_getr(backdrop);
  const int Bg = rgba_getg(backdrop);
  const int Bb = rgba_getb(backdrop);
  const int Ba = rgba_geta(backdrop);

  const int Sr = rgba_getr(src);
  const int Sg = rgba_getg(src);
  const int Sb = rgba_getb(src);
  int Sa = rgba_geta(src);
  Sa = MUL_UN8(Sa, opacity, t);

  // Ra = Sa + Ba*(1-Sa)
  //    = Sa + Ba - Ba*Sa
  const int Ra = Sa + Ba - MUL_UN8(Ba, Sa, t);

  // Rc = Bc + (Sc-Bc)*Sa/Ra
  if (Ra == 0) { g_undefined = 1; return 0; }
  const int Rr = Br + (Sr-Br) * Sa / Ra;
  const int Rg = Bg + (Sg-Bg) * Sa / Ra;
  const int Rb = Bb + (Sb-Bb) * Sa / Ra;

  return rgba(Rr, Rg, Rb, Ra);
}

color_t rgba_blender_multiply(color_t backdrop, color_t src, int opacity)
{
  int t;
  int r = blend_multiply(rgba_getr(backdrop), rgba_getr(src), t);
  int g = blend_multiply(rgba_getg(backdrop), rgba_getg(src), t);
  int b = blend_multiply(rgba_getb(backdrop), rgba_getb(src), t);
  src = rgba(r, g, b, 0) | (src & rgba_a_mask);
  return rgba_blender_normal(backdrop, src, opacity);
}

color_t rgba_blender_screen(color_t backdrop, color_t src, int opacity)
{
  int t;
  int r = blend_screen(rgba_getr(backdrop), rgba_getr(src), t);
  int g = blend_screen(rgba_getg(backdrop), rgba_getg(src), t);
  int b = blend_screen(rgba_getb(backdrop), rgba_getb(src), t);
  src = rgba(r, g, b, 0) | (src & rgba_a_mask);
  return rgba_blender_normal(backdrop, src, opacity);
}

color_t rgba_blender_overlay(color_t backdrop, color_t src, int opacity)
{
  int t;
  int r = blend_overlay(rgba_getr(backdrop), rgba_getr(src), t);
  int g = blend_overlay(rgba_getg(backdrop), rgba_getg(src), t);
  int b = blend_overlay(rgba_getb(backdrop), rgba_getb(src), t);
  src = rgba(r, g, b, 0) | (src & rgba_a_mask);
  return rgba_blender_normal(backdrop, src, opacity);
}

color_t rgba_blender_darken(color_t backdrop, color_t src, int opacity)
{
  int r = blend_darken(rgba_getr(backdrop), rgba_getr(src));
  int g = blend_darken(rgba_getg(backdrop), rgba_getg(src));
  int b = blend_darken(rgba_getb(backdrop), rgba_getb(src));
  src = rgba(r, g, b, 0) | (src & rgba_a_mask);
  return rgba_blender_normal(backdrop, src, opacity);
}

color_t rgba_blender_lighten(color_t backdrop, color_t src, int opacity)
{
  int r = blend_lighten(rgba_getr(backdrop), rgba_getr(src));
  int g = blend_lighten(rgba_getg(backdrop), rgba_getg(src));
  int b = blend_lighten(rgba_getb(backdrop), rgba_getb(src));
  src = rgba(r, g, b, 0) | (src & rgba_a_mask);
  return rgba_blender_normal(backdrop, src, opacity);
}

color_t rgba_blender_color_dodge(color_t backdrop, color_t src, int opacity)
{
  int r = blend_color_dodge(rgba_getr(backdrop), rgba_getr(src));
  int g = blend_color_dodge(rgba_getg(backdrop), rgba_getg(src));
  int b = blend_color_dodge(rgba_getb(backdrop), rgba_getb(src));
  src = rgba(r, g, b, 0) | (src & rgba_a_mask);
  return rgba_blender_normal(backdrop, src, opacity);
}

color_t rgba_blender_color_burn(color_t backdrop, color_t src, int opacity)
{
  int r = blend_color_burn(rgba_getr(backdrop), rgba_getr(src));
  int g = blend_color_burn(rgba_getg(backdrop), rgba_getg(src));
  int b = blend_color_burn(rgba_getb(backdrop), rgba_getb(src));
  src = rgba(r, g, b, 0) | (src & rgba_a_mask);
  return rgba_blender_normal(backdrop, src, opacity);
}

color_t rgba_blender_hard_light(color_t backdrop, color_t src, int opacity)
{
  int t;
  int r = blend_hard_light(rgba_getr(backdrop), rgba_getr(src), t);
  int g = blend_hard_light(rgba_getg(backdrop), rgba_getg(src), t);
  int b = blend_hard_light(rgba_getb(backdrop), rgba_getb(src), t);
  src = rgba(r, g, b, 0) | (src & rgba_a_mask);
  return rgba_blender_normal(backdrop, src, opacity);
}

color_t rgba_blender_soft_light(color_t backdrop, color_t src, int opacity)
{
  int r = blend_soft_light(rgba_getr(backdrop), rgba_getr(src));
  int g = blend_soft_light(rgba_getg(backdrop), rgba_getg(src));
  int b = blend_soft_light(rgba_getb(backdrop), rgba_getb(src));
  src = rgba(r, g, b, 0) | (src & rgba_a_mask);
  return rgba_blender_normal(backdrop, src, opacity);
}

color_t rgba_blender_difference(color_t backdrop, color_t src, int opacity)
{
  int r = blend_difference(rgba_getr(backdrop), rgba_getr(src));
  int g = blend_difference(rgba_getg(backdrop), rgba_getg(src));
  int b = blend_difference(rgba_getb(backdrop), rgba_getb(src));
  src = rgba(r, g, b, 0) | (src & rgba_a_mask);
  return rgba_blender_normal(backdrop, src, opacity);
}

color_t rgba_blender_exclusion(color_t backdrop, color_t src, int opacity)
{
  int t;
  int r = blend_exclusion(rgba_getr(backdrop), rgba_getr(src), t);
  int g = blend_exclusion(rgba_getg(backdrop), rgba_getg(src), t);
  int b = blend_exclusion(rgba_getb(backdrop), rgba_getb(src), t);
  src = rgba(r, g, b, 0) | (src & rgba_a_mask);
  return rgba_blender_normal(backdrop, src, opacity);
}

color_t rgba_blender_addition(color_t backdrop, color_t src, int opacity)
{
  int r = rgba_getr(backdrop) + rgba_getr(src);
  int g = rgba_getg(backdrop) + rgba_getg(src);
  int b = rgba_getb(backdrop) + rgba_getb(src);
  src = rgba(MIN(r, 255),
             MIN(g, 255),
             MIN(b, 255), 0) | (src & rgba_a_mask);
  return rgba_blender_normal(backdrop, src, opacity);
}

color_t rgba_blender_subtract(color_t backdrop, color_t src, int opacity)
{
  int r = rgba_getr(backdrop) - rgba_getr(src);
  int g = rgba_getg(backdrop) - rgba_getg(src);
  int b = rgba_getb(backdrop) - rgba_getb(src);
  src = rgba(MAX(r, 0), MAX(g, 0), MAX(b, 0), 0) | (src & rgba_a_mask);
  return rgba_blender_normal(backdrop, src, opacity);
}

color_t rgba_blender_divide(color_t backdrop, color_t src, int opacity)
{
  int r = blend_divide(rgba_getr(backdrop), rgba_getr(src));
  int g = blend_divide(rgba_getg(backdrop), rgba_getg(src));
  int b = blend_divide(rgba_getb(backdrop), rgba_getb(src));
  src = rgba(r, g, b, 0) | (src & rgba_a_mask);
  return rgba_blender_normal(backdrop, src, opacity);
}

// ---------------------------------------------------------------- HSL

static double lum(double r, double g, double b)
{
  return 0.3*r + 0.59*g + 0.11*b;
}

static double maxd(double a, double b) { if (a > b) return a; else return b; }
static double mind(double a, double b) { if (a < b) return a; else return b; }

static double sat(double r, double g, double b)
{
  return maxd(r, maxd(g, b)) - mind(r, mind(g, b));
}

static void clip_color(double& r, double& g, double& b)
{
  double l = lum(r, g, b);
  double n = mind(r, mind(g, b));
  double x = maxd(r, maxd(g, b));

  if (n < 0) {
    r = l + (((r - l) * l) / (l - n));
    g = l + (((g - l) * l) / (l - n));
    b = l + (((b - l) * l) / (l - n));
  }

  if (x > 1) {
    r = l + (((r - l) * (1 - l)) / (x - l));
    g = l + (((g - l) * (1 - l)) / (x - l));
    b = l + (((b - l) * (1 - l)) / (x - l));
  }
}

static void set_lum(double& r, double& g, double& b, double l)
{
  double d = l - lum(r, g, b);
  r += d;
  g += d;
  b += d;
  clip_color(r, g, b);
}

// Aseprite's macro-based version (kept verbatim, including its tie behaviour)
static void set_sat(double& r, double& g, double& b, double s)
{
#undef MID
#define MID(x,y,z)   ((x) > (y) ? ((y) > (z) ? (y) : ((x) > (z) ?    \
                       (z) : (x))) : ((y) > (z) ? ((z) > (x) ? (z) : \
                       (x)): (y)))

  double& min = MIN(r, MIN(g, b));
  double& mid = MID(r, g, b);
  double& max = MAX(r, MAX(g, b));

  if (max > min) {
    mid = ((mid - min)*s) / (max - min);
    max = s;
  }
  else
    mid = max = 0;

  min = 0;
}

static inline int to_int255(double v)
{
  double x = 255.0 * v;
  if (!(x > -2147483000.0 && x < 2147483000.0)) { g_undefined = 1; return 0; }
  return int(x);
}

color_t rgba_blender_hsl_hue(color_t backdrop, color_t src, int opacity)
{
  double r = rgba_getr(backdrop)/255.0;
  double g = rgba_getg(backdrop)/255.0;
  double b = rgba_getb(backdrop)/255.0;
  double s = sat(r, g, b);
  double l = lum(r, g, b);

  r = rgba_getr(src)/255.0;
  g = rgba_getg(src)/255.0;
  b = rgba_getb(src)/255.0;

  set_sat(r, g, b, s);
  set_lum(r, g, b, l);

  src = rgba(to_int255(r), to_int255(g), to_int255(b), 0) | (src & rgba_a_mask);
  return rgba_blender_normal(backdrop, src, opacity);
}

color_t rgba_blender_hsl_saturation(color_t backdrop, color_t src, int opacity)
{
  double r = rgba_getr(src)/255.0;
  double g = rgba_getg(src)/255.0;
  double b = rgba_getb(src)/255.0;
  double s = sat(r, g, b);

  r = rgba_getr(backdrop)/255.0;
  g = rgba_getg(backdrop)/255.0;
  b = rgba_getb(backdrop)/255.0;
  double l = lum(r, g, b);

  set_sat(r, g, b, s);
  set_lum(r, g, b, l);

  src = rgba(to_int255(r), to_int255(g), to_int255(b), 0) | (src & rgba_a_mask);
  return rgba_blender_normal(backdrop, src, opacity);
}

color_t rgba_blender_hsl_color(color_t backdrop, color_t src, int opacity)
{
  double r = rgba_getr(backdrop)/255.0;
  double g = rgba_getg(backdrop)/255.0;
  double b = rgba_getb(backdrop)/255.0;
  double l = lum(r, g, b);

  r = rgba_getr(src)/255.0;
  g = rgba_getg(src)/255.0;
  b = rgba_getb(src)/255.0;

  set_lum(r, g, b, l);

  src = rgba(to_int255(r), to_int255(g), to_int255(b), 0) | (src & rgba_a_mask);
  return rgba_blender_normal(backdrop, src, opacity);
}

color_t rgba_blender_hsl_luminosity(color_t backdrop, color_t src, int opacity)
{
  double r = rgba_getr(src)/255.0;
  double g = rgba_getg(src)/255.0;
  double b = rgba_getb(src)/255.0;
  double l = lum(r, g, b);

  r = rgba_getr(backdrop)/255.0;
  g = rgba_getg(backdrop)/255.0;
  b = rgba_getb(backdrop)/255.0;

  set_lum(r, g, b, l);

  src = rgba(to_int255(r), to_int255(g), to_int255(b), 0) | (src & rgba_a_mask);
  return rgba_blender_normal(backdrop, src, opacity);
}

// New Blender Method macros
#define RGBA_BLENDER_N(name)                                                    \
color_t rgba_blender_##name##_n(color_t backdrop, color_t src, int opacity) {   \
  if (backdrop & rgba_a_mask) {                                                 \
    color_t normal = rgba_blender_normal(backdrop, src, opacity);               \
    color_t blend = rgba_blender_##name(backdrop, src, opacity);                \
    int Ba = rgba_geta(backdrop);                                               \
    color_t normalToBlendMerge = rgba_blender_merge(normal, blend, Ba);         \
    int t;                                                                      \
    int srcTotalAlpha = MUL_UN8(rgba_geta(src), opacity, t);                    \
    int compositeAlpha = MUL_UN8(Ba, srcTotalAlpha, t);                         \
    return rgba_blender_merge(normalToBlendMerge, blend, compositeAlpha);       \
  }                                                                             \
  else                                                                          \
    return rgba_blender_normal(backdrop, src, opacity);                         \
}

RGBA_BLENDER_N(multiply)
RGBA_BLENDER_N(screen)
RGBA_BLENDER_N(overlay)
RGBA_BLENDER_N(darken)
RGBA_BLENDER_N(lighten)
RGBA_BLENDER_N(color_dodge)
RGBA_BLENDER_N(color_burn)
RGBA_BLENDER_N(hard_light)
RGBA_BLENDER_N(soft_light)
RGBA_BLENDER_N(difference)
RGBA_BLENDER_N(exclusion)
RGBA_BLENDER_N(hsl_hue)
RGBA_BLENDER_N(hsl_saturation)
RGBA_BLENDER_N(hsl_color)
RGBA_BLENDER_N(hsl_luminosity)
RGBA_BLENDER_N(addition)
RGBA_BLENDER_N(subtract)
RGBA_BLENDER_N(divide)

typedef color_t (*blend_fn)(color_t, color_t, int);

// indexed by the file format's blend mode id
static blend_fn table[19] = {
  rgba_blender_normal,
  rgba_blender_multiply_n,
  rgba_blender_screen_n,
  rgba_blender_overlay_n,
  rgba_blender_darken_n,
  rgba_blender_lighten_n,
  rgba_blender_color_dodge_n,
  rgba_blender_color_burn_n,
  rgba_blender_hard_light_n,
  rgba_blender_soft_light_n,
  rgba_blender_difference_n,
  rgba_blender_exclusion_n,
  rgba_blender_hsl_hue_n,
  rgba_blender_hsl_saturation_n,
  rgba_blender_hsl_color_n,
  rgba_blender_hsl_luminosity_n,
  rgba_blender_addition_n,
  rgba_blender_subtract_n,
  rgba_blender_divide_n,
};

extern "C" {

// out[i] = blend(mode, back[i], src[i], opacity); undef[i] = 1 where C++ leaves the result undefined.
// Pixels are packed as r | g<<8 | b<<16 | a<<24.
void ase_blend_batch(int mode, const uint32_t* back, const uint32_t* src, int opacity, uint32_t* out, uint8_t* undef, size_t n)
{
  blend_fn f = table[mode];
  for (size_t i = 0; i < n; ++i) {
    g_undefined = 0;
    out[i] = f(back[i], src[i], opacity);
    undef[i] = (uint8_t)g_undefined;
  }
}

}
