#![allow(dead_code, unused_imports)]
use vcheck::runner::*;
use vcheck::{alloc, props, worker};

#[global_allocator]
static GLOBAL: alloc::CountingAlloc = alloc::CountingAlloc;

fn usage() -> ! {
    eprintln!("usage: vcheck <ID> quick|thorough | vcheck <ID> --replay <file> | vcheck --worker | vcheck --obs-digest <seed> <n>");
    std::process::exit(2)
}

fn main() {
    let args: Vec<String> = std::env::args().collect();
    if args.len() < 2 {
        usage();
    }
    install_panic_hook();
    vcheck::logger::install();
    if args[1] == "--worker" {
        worker::worker_main();
    }
    if args[1] == "--first-use" {
        // vcheck --first-use blend <mode> <seed> <c17:0|1>  |  vcheck --first-use observe <seed> <i>
        let n = |k: usize| -> u64 { args.get(k).and_then(|s| s.parse().ok()).unwrap_or(0) };
        match args.get(2).map(|s| s.as_str()) {
            Some("blend") => props::c03::first_use_main(n(3) as u16, n(4), n(5) == 1),
            Some("observe") => props::c16::first_use_main(n(3), n(4)),
            _ => usage(),
        }
    }
    if args[1] == "--obs-digest" {
        let seed: u64 = args.get(2).and_then(|s| s.parse().ok()).unwrap_or(1);
        let n: u64 = args.get(3).and_then(|s| s.parse().ok()).unwrap_or(100);
        props::c16::obs_digest_main(seed, n);
    }
    let id = args[1].to_uppercase();
    let seed: u64 = std::env::var("VERIF_SEED").ok().and_then(|s| s.trim().parse::<i64>().ok()).map(|v| v as u64).unwrap_or(1);
    if args.len() >= 4 && args[2] == "--replay" {
        let text = std::fs::read_to_string(&args[3]).expect("read replay file");
        let doc: serde_json::Value = serde_json::from_str(&text).expect("parse replay file");
        let case = doc.get("case").cloned().unwrap_or(serde_json::Value::Null);
        match props::replay(&id, &case) {
            Some(Ok(_)) => {
                println!("replay {}: property holds on this case", id);
                std::process::exit(0);
            }
            Some(Err(f)) => {
                println!("  failure [{}]: {}", f.signature, f.msg);
                println!("VIOLATION property={} replay={}", id, args[3]);
                std::process::exit(1);
            }
            None => usage(),
        }
    }
    let tier = args.get(2).map(|s| s.as_str()).unwrap_or("quick");
    let tier = if tier == "thorough" { "thorough" } else { "quick" };
    let code = props::run(&id, tier, seed).unwrap_or_else(|| usage());
    std::process::exit(code);
}
