//! Independent best-effort structural walker over arbitrary bytes (no decoding of payloads):
//! frame/chunk spans by declared sizes, generic field positions, and work estimates.
use crate::encode::{Field, Kind, Span};

fn u16at(b: &[u8], o: usize) -> Option<u16> {
    b.get(o..o + 2).map(|s| u16::from_le_bytes([s[0], s[1]]))
}
fn u32at(b: &[u8], o: usize) -> Option<u32> {
    b.get(o..o + 4).map(|s| u32::from_le_bytes([s[0], s[1], s[2], s[3]]))
}

#[derive(Clone, Debug, Default)]
pub struct Scan {
    pub frames: Vec<(usize, usize)>,
    pub chunks: Vec<Span>,
    pub last_frame_end: usize,
    /// complete = every declared frame and chunk lies inside the input
    pub complete: bool,
    pub hints: Hints,
}

#[derive(Clone, Copy, Debug, Default)]
pub struct Hints {
    pub canvas_pixels: u64,
    pub max_tilemap_tiles: u64,
    pub max_tile_area: u64,
    pub max_cel_w: u64,
    pub total_declared_pixels: u64,
    pub layers: u64,
    pub frames: u64,
}

pub fn scan(b: &[u8]) -> Scan {
    let mut s = Scan::default();
    let nframes = match u16at(b, 6) {
        Some(n) if b.len() >= 128 => n as usize,
        _ => return s,
    };
    s.hints.canvas_pixels = u16at(b, 8).unwrap_or(0) as u64 * u16at(b, 10).unwrap_or(0) as u64;
    s.hints.frames = nframes as u64;
    let mut off = 128usize;
    s.complete = true;
    for fi in 0..nframes {
        let (nb, old, new) = match (u32at(b, off), u16at(b, off + 6), u32at(b, off + 12)) {
            (Some(a), Some(o), Some(n)) => (a as usize, o, n),
            _ => {
                s.complete = false;
                break;
            }
        };
        let n = if new == 0 { old as u32 } else { new };
        let fstart = off;
        let mut co = off + 16;
        for _ in 0..n {
            let (cs, ct) = match (u32at(b, co), u16at(b, co + 4)) {
                (Some(a), Some(t)) => (a as usize, t),
                _ => {
                    s.complete = false;
                    break;
                }
            };
            if cs < 6 || co + cs > b.len() {
                s.complete = false;
                break;
            }
            s.chunks.push(Span { start: co, end: co + cs, ctype: ct, frame: fi as u32 });
            let p = co + 6;
            match ct {
                0x2004 => s.hints.layers += 1,
                0x2005 => {
                    let ctype = u16at(b, p + 7).unwrap_or(9);
                    let w = u16at(b, p + 16).unwrap_or(0) as u64;
                    let h = u16at(b, p + 18).unwrap_or(0) as u64;
                    match ctype {
                        0 | 2 => {
                            s.hints.max_cel_w = s.hints.max_cel_w.max(w);
                            s.hints.total_declared_pixels = s.hints.total_declared_pixels.saturating_add(w * h);
                        }
                        3 => {
                            s.hints.max_tilemap_tiles = s.hints.max_tilemap_tiles.max(w * h);
                        }
                        _ => {}
                    }
                }
                0x2023 => {
                    let cnt = u32at(b, p + 8).unwrap_or(0) as u64;
                    let tw = u16at(b, p + 12).unwrap_or(0) as u64;
                    let th = u16at(b, p + 14).unwrap_or(0) as u64;
                    s.hints.max_tile_area = s.hints.max_tile_area.max(tw * th);
                    s.hints.total_declared_pixels = s.hints.total_declared_pixels.saturating_add(cnt.saturating_mul(tw * th));
                }
                _ => {}
            }
            co += cs;
        }
        if !s.complete {
            break;
        }
        let fend = fstart + nb;
        // trust the chunk walk over the declared frame size when they disagree
        let end = co.max(fstart + 16);
        s.frames.push((fstart, end));
        s.last_frame_end = end;
        off = if fend == end { fend } else { end };
    }
    if s.frames.len() != nframes {
        s.complete = false;
    }
    s
}

/// Generic field map for arbitrary inputs: header fields, frame headers, chunk headers, and the
/// first 48 payload bytes of every chunk as 1/2/4-byte fields.
pub fn generic_fields(b: &[u8], sc: &Scan) -> Vec<Field> {
    let mut v = Vec::new();
    let mut add = |off: usize, len: usize, kind: Kind, name: &str, chunk: u16| {
        if off + len <= b.len() {
            v.push(Field { off, len, kind, name: name.to_string(), chunk });
        }
    };
    for (off, len, name) in [(4usize, 2usize, "magic"), (6, 2, "num_frames"), (8, 2, "width"), (10, 2, "height"), (12, 2, "depth"), (28, 1, "transparent_index"), (34, 1, "pixel_w"), (35, 1, "pixel_h")] {
        add(off, len, Kind::Value, name, 0);
    }
    for (fs, _) in &sc.frames {
        add(*fs, 4, Kind::Size, "frame_bytes", 1);
        add(fs + 4, 2, Kind::Magic, "frame_magic", 1);
        add(fs + 6, 2, Kind::Count, "frame_old_chunks", 1);
        add(fs + 12, 4, Kind::Count, "frame_new_chunks", 1);
    }
    for c in &sc.chunks {
        add(c.start, 4, Kind::Size, "chunk_size", c.ctype);
        add(c.start + 4, 2, Kind::Enum, "chunk_type", c.ctype);
        let p = c.start + 6;
        let n = (c.end - p).min(48);
        for i in 0..n {
            add(p + i, 1, Kind::Value, "payload_u8", c.ctype);
            if i % 2 == 0 {
                add(p + i, 2, Kind::Value, "payload_u16", c.ctype);
            }
            if i % 4 == 0 || i % 4 == 2 {
                add(p + i, 4, Kind::Value, "payload_u32", c.ctype);
            }
        }
    }
    v
}
