//! Counting / denying global allocator with thread-local windows (C12).
//! Inside a window opened on the current thread it tracks live bytes (allocs - frees), the peak
//! and the largest single request. In deny mode a request that would push live bytes above
//! `base + per_byte * delivered` is reported on fd 1 and the process exits (code 3) before the
//! memory is committed, so a violation never actually reserves gigabytes.
use std::alloc::{GlobalAlloc, Layout, System};
use std::cell::Cell;

pub struct CountingAlloc;

thread_local! {
    static ACTIVE: Cell<bool> = const { Cell::new(false) };
    static DENY: Cell<bool> = const { Cell::new(false) };
    static LIVE: Cell<i64> = const { Cell::new(0) };
    static PEAK: Cell<i64> = const { Cell::new(0) };
    static MAXREQ: Cell<u64> = const { Cell::new(0) };
    static DELIVERED: Cell<u64> = const { Cell::new(0) };
    static WORST_NUM: Cell<i64> = const { Cell::new(0) };
    static WORST_DELIVERED: Cell<u64> = const { Cell::new(0) };
}

pub const BASE: i64 = 64 << 20;
pub const PER_BYTE: i64 = 8192;

#[derive(Clone, Copy, Debug, Default)]
pub struct WindowStats {
    pub peak: i64,
    pub max_req: u64,
    pub delivered: u64,
    /// peak of (live - BASE) relative to the bytes delivered at that moment, as (excess, delivered)
    pub worst_excess: i64,
    pub worst_delivered: u64,
}

pub fn open_window(deny: bool) {
    LIVE.with(|c| c.set(0));
    PEAK.with(|c| c.set(0));
    MAXREQ.with(|c| c.set(0));
    DELIVERED.with(|c| c.set(0));
    WORST_NUM.with(|c| c.set(i64::MIN));
    WORST_DELIVERED.with(|c| c.set(0));
    DENY.with(|c| c.set(deny));
    ACTIVE.with(|c| c.set(true));
}

pub fn close_window() -> WindowStats {
    ACTIVE.with(|c| c.set(false));
    WindowStats {
        peak: PEAK.with(|c| c.get()),
        max_req: MAXREQ.with(|c| c.get()),
        delivered: DELIVERED.with(|c| c.get()),
        worst_excess: WORST_NUM.with(|c| c.get()),
        worst_delivered: WORST_DELIVERED.with(|c| c.get()),
    }
}

pub fn add_delivered(n: u64) {
    DELIVERED.with(|c| c.set(c.get() + n));
}

fn fmt_u64(buf: &mut [u8], pos: &mut usize, mut v: u64) {
    let mut tmp = [0u8; 20];
    let mut n = 0;
    if v == 0 {
        tmp[0] = b'0';
        n = 1;
    }
    while v > 0 {
        tmp[n] = b'0' + (v % 10) as u8;
        v /= 10;
        n += 1;
    }
    for i in (0..n).rev() {
        buf[*pos] = tmp[i];
        *pos += 1;
    }
}

fn put(buf: &mut [u8], pos: &mut usize, s: &[u8]) {
    buf[*pos..*pos + s.len()].copy_from_slice(s);
    *pos += s.len();
}

fn deny_and_exit(live: i64, req: u64, delivered: u64, bound: i64) -> ! {
    let mut buf = [0u8; 256];
    let mut p = 0;
    put(&mut buf, &mut p, b"{\"phase\":\"denied\",\"live\":");
    fmt_u64(&mut buf, &mut p, live.max(0) as u64);
    put(&mut buf, &mut p, b",\"req\":");
    fmt_u64(&mut buf, &mut p, req);
    put(&mut buf, &mut p, b",\"delivered\":");
    fmt_u64(&mut buf, &mut p, delivered);
    put(&mut buf, &mut p, b",\"bound\":");
    fmt_u64(&mut buf, &mut p, bound.max(0) as u64);
    put(&mut buf, &mut p, b"}\n");
    unsafe {
        libc::write(1, buf.as_ptr() as *const libc::c_void, p);
        libc::_exit(3);
    }
}

#[inline]
fn on_alloc(size: usize) {
    if !ACTIVE.with(|c| c.get()) {
        return;
    }
    let live = LIVE.with(|c| c.get());
    let new_live = live.saturating_add(size as i64);
    let delivered = DELIVERED.with(|c| c.get());
    let bound = BASE.saturating_add(PER_BYTE.saturating_mul(delivered as i64));
    if new_live > bound && DENY.with(|c| c.get()) {
        ACTIVE.with(|c| c.set(false));
        deny_and_exit(live, size as u64, delivered, bound);
    }
    LIVE.with(|c| c.set(new_live));
    if new_live > PEAK.with(|c| c.get()) {
        PEAK.with(|c| c.set(new_live));
    }
    if size as u64 > MAXREQ.with(|c| c.get()) {
        MAXREQ.with(|c| c.set(size as u64));
    }
    // track the tightest point relative to the bound: maximise live - PER_BYTE*delivered
    let slack = new_live - PER_BYTE.saturating_mul(delivered as i64);
    if slack > WORST_NUM.with(|c| c.get()) {
        WORST_NUM.with(|c| c.set(slack));
        WORST_DELIVERED.with(|c| c.set(delivered));
    }
}

#[inline]
fn on_free(size: usize) {
    if ACTIVE.with(|c| c.get()) {
        LIVE.with(|c| c.set(c.get() - size as i64));
    }
}

unsafe impl GlobalAlloc for CountingAlloc {
    unsafe fn alloc(&self, layout: Layout) -> *mut u8 {
        on_alloc(layout.size());
        System.alloc(layout)
    }
    unsafe fn alloc_zeroed(&self, layout: Layout) -> *mut u8 {
        on_alloc(layout.size());
        System.alloc_zeroed(layout)
    }
    unsafe fn dealloc(&self, ptr: *mut u8, layout: Layout) {
        on_free(layout.size());
        System.dealloc(ptr, layout)
    }
    unsafe fn realloc(&self, ptr: *mut u8, layout: Layout, new_size: usize) -> *mut u8 {
        if new_size > layout.size() {
            on_alloc(new_size - layout.size());
        } else {
            on_free(layout.size() - new_size);
        }
        System.realloc(ptr, layout, new_size)
    }
}
