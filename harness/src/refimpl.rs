//! Reference semantics written from the property statements / file format, not from the library.
use crate::model::*;
use crate::observe::Img;

/// Decode raw pixel bytes of the sprite's format into RGBA per the C06 rule.
pub fn decode_pixels(s: &Sprite, bytes: &[u8], layer_background: bool) -> Vec<[u8; 4]> {
    match s.fmt {
        Fmt::Rgba => bytes.chunks_exact(4).map(|c| [c[0], c[1], c[2], c[3]]).collect(),
        Fmt::Gray => bytes.chunks_exact(2).map(|c| [c[0], c[0], c[0], c[1]]).collect(),
        Fmt::Indexed => {
            let pal = s.effective_palette().unwrap_or_default();
            bytes
                .iter()
                .map(|i| {
                    let (rgba, _) = pal.get(&(*i as u32)).cloned().unwrap_or(([0, 0, 0, 0], None));
                    let a = if *i == s.transparent && !layer_background { 0 } else { rgba[3] };
                    [rgba[0], rgba[1], rgba[2], a]
                })
                .collect()
        }
    }
}

/// A cel's content as placed RGBA pixels: (x, y, w, h, pixels, cel opacity). Links are resolved to
/// the cel of the same layer in the target frame; tilemaps are rasterised from their tileset
/// (tile transform bits ignored).
pub struct Placed {
    pub x: i32,
    pub y: i32,
    pub w: u32,
    pub h: u32,
    pub px: Vec<[u8; 4]>,
    pub cel_opacity: u8,
}

pub fn placed(s: &Sprite, frame: usize, layer: usize) -> Option<Placed> {
    let cel = s.cel(frame, layer)?;
    let cel = match &cel.content {
        CelContent::Link { frame: tf } => s.cel(*tf as usize, layer)?,
        _ => cel,
    };
    let bg = s.layers[layer].flags & LF_BACKGROUND != 0;
    match &cel.content {
        CelContent::Link { .. } => None,
        CelContent::Image { w, h, pixels } => Some(Placed { x: cel.x as i32, y: cel.y as i32, w: *w as u32, h: *h as u32, px: decode_pixels(s, pixels, bg), cel_opacity: cel.opacity }),
        CelContent::Tilemap { w, h, masks, tiles, .. } => {
            let tsid = match s.layers[layer].kind {
                LayerKind::Tilemap { tileset } => tileset,
                _ => return None,
            };
            let ts = s.tileset_by_id(tsid)?;
            let tpx = decode_pixels(s, &ts.pixels, false);
            let (tw, th) = (ts.tw as u32, ts.th as u32);
            let (pw, ph) = (*w as u32 * tw, *h as u32 * th);
            let mut px = vec![[0u8; 4]; (pw * ph) as usize];
            for ty in 0..*h as u32 {
                for tx in 0..*w as u32 {
                    let id = tiles[(ty * *w as u32 + tx) as usize] & masks[0];
                    let base = (id * tw * th) as usize;
                    for py in 0..th {
                        for pxx in 0..tw {
                            let src = tpx[base + (py * tw + pxx) as usize];
                            px[((ty * th + py) * pw + tx * tw + pxx) as usize] = src;
                        }
                    }
                }
            }
            Some(Placed { x: cel.x as i32, y: cel.y as i32, w: pw, h: ph, px, cel_opacity: cel.opacity })
        }
    }
}

/// C06: the canvas-sized transparent image with the cel's pixels placed at its offset (clipped),
/// alpha scaled by the rounded product of layer and cel opacity.
pub fn cel_image(s: &Sprite, frame: usize, layer: usize) -> Img {
    let (cw, ch) = (s.width as u32, s.height as u32);
    let mut img = vec![0u8; (cw * ch * 4) as usize];
    if let Some(p) = placed(s, frame, layer) {
        let op = mul_un8(s.layers[layer].opacity as i32, p.cel_opacity as i32) as i32;
        for j in 0..p.h {
            let y = p.y + j as i32;
            if y < 0 || y >= ch as i32 {
                continue;
            }
            for i in 0..p.w {
                let x = p.x + i as i32;
                if x < 0 || x >= cw as i32 {
                    continue;
                }
                let c = p.px[(j * p.w + i) as usize];
                let a = mul_un8(c[3] as i32, op);
                let o = ((y as u32 * cw + x as u32) * 4) as usize;
                if a != 0 {
                    img[o..o + 4].copy_from_slice(&[c[0], c[1], c[2], a]);
                }
            }
        }
    }
    Img { w: cw, h: ch, px: img }
}

/// The cel's pixels on a transparent canvas, *without* opacity applied (for C02's probes).
pub fn cel_on_canvas_raw(s: &Sprite, p: &Placed) -> Vec<u8> {
    let (cw, ch) = (s.width as u32, s.height as u32);
    let mut img = vec![0u8; (cw * ch * 4) as usize];
    for j in 0..p.h {
        let y = p.y + j as i32;
        if y < 0 || y >= ch as i32 {
            continue;
        }
        for i in 0..p.w {
            let x = p.x + i as i32;
            if x < 0 || x >= cw as i32 {
                continue;
            }
            let c = p.px[(j * p.w + i) as usize];
            let o = ((y as u32 * cw + x as u32) * 4) as usize;
            img[o..o + 4].copy_from_slice(&c);
        }
    }
    img
}
