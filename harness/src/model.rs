//! Plain description of what an Aseprite file encodes. The encoder writes exactly
//! what the model says (it never "fixes" inconsistent models), so hostile models
//! can be expressed too.
use serde::{Deserialize, Serialize};

#[derive(Clone, Copy, Debug, PartialEq, Eq, Hash, Serialize, Deserialize)]
pub enum Fmt {
    Rgba,
    Gray,
    Indexed,
}

impl Fmt {
    pub fn bpp(self) -> usize {
        match self {
            Fmt::Rgba => 4,
            Fmt::Gray => 2,
            Fmt::Indexed => 1,
        }
    }
    pub fn depth(self) -> u16 {
        match self {
            Fmt::Rgba => 32,
            Fmt::Gray => 16,
            Fmt::Indexed => 8,
        }
    }
}

#[derive(Clone, Debug, PartialEq, Eq, Hash, Serialize, Deserialize)]
pub struct UserData {
    pub text: Option<String>,
    pub color: Option<[u8; 4]>,
}

#[derive(Clone, Debug, PartialEq, Eq, Hash, Serialize, Deserialize)]
pub enum LayerKind {
    Image,
    Group,
    Tilemap { tileset: u32 },
}

pub const LF_VISIBLE: u16 = 1;
pub const LF_BACKGROUND: u16 = 8;

#[derive(Clone, Debug, PartialEq, Eq, Hash, Serialize, Deserialize)]
pub struct Layer {
    pub flags: u16,
    pub kind: LayerKind,
    pub level: u16,
    pub blend: u16,
    pub opacity: u8,
    pub name: String,
    pub user_data: Option<UserData>,
}

#[derive(Clone, Debug, PartialEq, Eq, Hash, Serialize, Deserialize)]
pub enum CelContent {
    /// pixels: raw bytes in the sprite's pixel format, row-major, w*h*bpp bytes when consistent
    Image { w: u16, h: u16, pixels: Vec<u8> },
    Link { frame: u16 },
    /// tiles: raw 32-bit tile words, row-major. masks = (tile id, xflip, yflip, rot90)
    Tilemap { w: u16, h: u16, bits: u16, masks: [u32; 4], tiles: Vec<u32> },
}

#[derive(Clone, Debug, PartialEq, Eq, Hash, Serialize, Deserialize)]
pub struct Cel {
    pub layer: u16,
    pub x: i16,
    pub y: i16,
    pub opacity: u8,
    pub content: CelContent,
    pub user_data: Option<UserData>,
}

#[derive(Clone, Debug, PartialEq, Eq, Hash, Serialize, Deserialize)]
pub struct Frame {
    pub duration: u16,
    pub cels: Vec<Cel>,
}

#[derive(Clone, Debug, PartialEq, Eq, Hash, Serialize, Deserialize)]
pub struct Tag {
    pub from: u16,
    pub to: u16,
    pub dir: u8,
    pub repeat: u16,
    pub name: String,
}

#[derive(Clone, Debug, PartialEq, Eq, Hash, Serialize, Deserialize)]
pub struct SliceKey {
    pub frame: u32,
    pub x: i32,
    pub y: i32,
    pub w: u32,
    pub h: u32,
    /// present in the file iff slice flag bit 0
    pub center: (i32, i32, u32, u32),
    /// present in the file iff slice flag bit 1
    pub pivot: (i32, i32),
}

#[derive(Clone, Debug, PartialEq, Eq, Hash, Serialize, Deserialize)]
pub struct Slice {
    pub name: String,
    pub flags: u32,
    pub keys: Vec<SliceKey>,
    pub user_data: Option<UserData>,
}

#[derive(Clone, Debug, PartialEq, Eq, Hash, Serialize, Deserialize)]
pub struct PalEntry {
    pub rgba: [u8; 4],
    pub name: Option<String>,
}

#[derive(Clone, Debug, PartialEq, Eq, Hash, Serialize, Deserialize)]
pub struct NewPalette {
    pub first: u32,
    pub entries: Vec<PalEntry>,
}

#[derive(Clone, Debug, PartialEq, Eq, Hash, Serialize, Deserialize)]
pub struct LegacyPacket {
    pub skip: u8,
    /// 1..=256 colours; the count byte written is len % 256. For kind 0x0011 components are 0..63.
    pub colors: Vec<[u8; 3]>,
}

#[derive(Clone, Debug, PartialEq, Eq, Hash, Serialize, Deserialize)]
pub struct LegacyPalette {
    /// 0x0004 or 0x0011
    pub kind: u16,
    pub packets: Vec<LegacyPacket>,
}

#[derive(Clone, Debug, PartialEq, Eq, Hash, Serialize, Deserialize)]
pub struct ExtFile {
    pub id: u32,
    pub name: String,
}

#[derive(Clone, Debug, PartialEq, Eq, Hash, Serialize, Deserialize)]
pub struct Tileset {
    pub id: u32,
    /// bit0 external link, bit1 embedded pixels, bit2 empty tile is id 0
    pub flags: u32,
    pub count: u32,
    pub tw: u16,
    pub th: u16,
    pub base_index: i16,
    pub name: String,
    pub ext: (u32, u32),
    /// raw bytes in the sprite's pixel format (count*tw*th*bpp when consistent)
    pub pixels: Vec<u8>,
}

#[derive(Clone, Debug, PartialEq, Eq, Hash, Serialize, Deserialize)]
pub struct Sprite {
    pub width: u16,
    pub height: u16,
    pub fmt: Fmt,
    pub transparent: u8,
    pub layers: Vec<Layer>,
    pub frames: Vec<Frame>,
    pub tags: Option<Vec<Tag>>,
    /// user data records following the tags chunk (attached to tags 0..k)
    pub tag_user_data: Vec<UserData>,
    pub slices: Vec<Slice>,
    pub palette: Option<NewPalette>,
    pub legacy: Option<LegacyPalette>,
    /// user data after the legacy palette chunk (sprite user data); only written when legacy is Some
    pub sprite_user_data: Option<UserData>,
    pub ext_files: Vec<ExtFile>,
    pub tilesets: Vec<Tileset>,
}

impl Sprite {
    pub fn empty(width: u16, height: u16, fmt: Fmt) -> Sprite {
        Sprite {
            width,
            height,
            fmt,
            transparent: 0,
            layers: vec![],
            frames: vec![Frame { duration: 100, cels: vec![] }],
            tags: None,
            tag_user_data: vec![],
            slices: vec![],
            palette: None,
            legacy: None,
            sprite_user_data: None,
            ext_files: vec![],
            tilesets: vec![],
        }
    }

    /// The palette the file effectively defines (new chunk wins over legacy), as id -> (rgba, name).
    pub fn effective_palette(&self) -> Option<std::collections::BTreeMap<u32, ([u8; 4], Option<String>)>> {
        use std::collections::BTreeMap;
        if let Some(p) = &self.palette {
            let mut m = BTreeMap::new();
            for (i, e) in p.entries.iter().enumerate() {
                m.insert(p.first.wrapping_add(i as u32), (e.rgba, e.name.clone()));
            }
            return Some(m);
        }
        if let Some(l) = &self.legacy {
            let mut m = BTreeMap::new();
            let mut skip = 0u32;
            for p in &l.packets {
                skip += p.skip as u32;
                for (k, c) in p.colors.iter().enumerate() {
                    let rgb = if l.kind == 0x0011 {
                        [scale6(c[0]), scale6(c[1]), scale6(c[2])]
                    } else {
                        *c
                    };
                    m.insert(skip + k as u32, ([rgb[0], rgb[1], rgb[2], 255], None));
                }
            }
            return Some(m);
        }
        None
    }

    pub fn layer_visible(&self, idx: usize) -> bool {
        // model semantics: own flag and all ancestors' flags
        let mut i = idx;
        loop {
            if self.layers[i].flags & LF_VISIBLE == 0 {
                return false;
            }
            match self.parent_of(i) {
                Some(p) => i = p,
                None => return true,
            }
        }
    }

    /// nearest preceding layer with a smaller level
    pub fn parent_of(&self, idx: usize) -> Option<usize> {
        let lvl = self.layers[idx].level;
        if lvl == 0 {
            return None;
        }
        let mut j = idx;
        while j > 0 {
            j -= 1;
            if self.layers[j].level < lvl {
                return Some(j);
            }
        }
        None
    }

    pub fn cel(&self, frame: usize, layer: usize) -> Option<&Cel> {
        self.frames[frame].cels.iter().find(|c| c.layer as usize == layer)
    }

    pub fn tileset_by_id(&self, id: u32) -> Option<&Tileset> {
        self.tilesets.iter().find(|t| t.id == id)
    }
}

/// Reference 6-bit to 8-bit scaling used only to *build* expectations where the property pins
/// the value (0 -> 0, 63 -> 255); C11 checks the looser relation the statement makes.
pub fn scale6(v: u8) -> u8 {
    (v << 2) | (v >> 4)
}

pub fn mul_un8(a: i32, b: i32) -> u8 {
    let t = a * b + 0x80;
    (((t >> 8) + t) >> 8) as u8
}
