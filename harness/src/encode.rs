//! model + EncodingPlan -> bytes + FieldMap.
use crate::model::*;
use flate2::write::ZlibEncoder;
use flate2::Compression;
use serde::{Deserialize, Serialize};
use std::io::Write;

#[derive(Clone, Copy, Debug, PartialEq, Eq, Hash, Serialize, Deserialize)]
pub enum Kind {
    Magic,
    Size,
    Count,
    Index,
    Offset,
    Enum,
    Flags,
    Opacity,
    StrLen,
    Dim,
    Value,
    Reserved,
    Payload,
}

#[derive(Clone, Debug, PartialEq, Eq, Hash, Serialize, Deserialize)]
pub struct Field {
    pub off: usize,
    pub len: usize,
    pub kind: Kind,
    pub name: String,
    /// owning chunk type (0 = file header, 1 = frame header)
    pub chunk: u16,
}

#[derive(Clone, Debug, PartialEq, Eq, Hash, Serialize, Deserialize)]
pub struct Plan {
    pub seed: u64,
    /// 0 = all raw, 1 = all zlib, 2 = per cel
    pub compress: u8,
    /// 0..=9 fixed level, 10 = per cel
    pub zlevel: u8,
    /// 0 old only, 1 both, 2 old=0xFFFF+new, 3 per frame
    pub count_form: u8,
    /// 0 none, otherwise n/8 chance per slot of an ignorable chunk
    pub ignorable: u8,
    /// 0 none, otherwise n/8 chance per chunk of trailing padding bytes
    pub pad: u8,
    pub trailing: u16,
    pub junk: bool,
    /// 0 = (1,1), 1 = (0,k), 2 = (k,0), 3 = (0,0)
    pub ratio: u8,
    pub legacy_beside_new: bool,
    pub shuffle: bool,
    /// 0 none, 1 type none, 2 sRGB
    pub color_profile: u8,
    /// (frame index, chunk count): pad that frame with empty ignorable (path) chunks up to exactly this
    /// many chunks; (0, 0) = no padding. Used to hit the 65534/65535/65536 chunk-count boundary.
    #[serde(default)]
    pub pad_to: (u32, u32),
    /// frame (clamped to the last one) that receives the legacy palette chunk; 0 = first frame.
    /// Old Aseprite versions wrote a palette chunk into later frames too.
    #[serde(default)]
    pub legacy_frame: u8,
}

impl Plan {
    pub fn plain() -> Plan {
        Plan {
            seed: 0,
            compress: 1,
            zlevel: 6,
            count_form: 1,
            ignorable: 0,
            pad: 0,
            trailing: 0,
            junk: false,
            ratio: 0,
            legacy_beside_new: false,
            shuffle: false,
            color_profile: 0,
            pad_to: (0, 0),
            legacy_frame: 0,
        }
    }
}

pub struct Rng(pub u64);
impl Rng {
    pub fn next(&mut self) -> u64 {
        self.0 = self.0.wrapping_add(0x9E3779B97F4A7C15);
        let mut z = self.0;
        z = (z ^ (z >> 30)).wrapping_mul(0xBF58476D1CE4E5B9);
        z = (z ^ (z >> 27)).wrapping_mul(0x94D049BB133111EB);
        z ^ (z >> 31)
    }
    pub fn below(&mut self, n: u64) -> u64 {
        if n == 0 {
            0
        } else {
            self.next() % n
        }
    }
    pub fn chance8(&mut self, n: u8) -> bool {
        n > 0 && (self.next() % 8) < n as u64
    }
}

pub fn mix(a: u64, b: u64) -> u64 {
    let mut r = Rng(a ^ b.wrapping_mul(0xD6E8FEB86659FD93));
    r.next()
}

#[derive(Clone, Debug)]
pub struct Span {
    pub start: usize,
    pub end: usize,
    pub ctype: u16,
    pub frame: u32,
}

#[derive(Clone, Debug)]
pub struct Encoded {
    pub bytes: Vec<u8>,
    pub fields: Vec<Field>,
    /// byte offset one past the end of each frame
    pub frame_ends: Vec<usize>,
    pub frame_starts: Vec<usize>,
    pub chunks: Vec<Span>,
}

impl Encoded {
    pub fn last_frame_end(&self) -> usize {
        self.frame_ends.last().copied().unwrap_or(128)
    }
}

pub struct W {
    pub b: Vec<u8>,
    pub f: Vec<Field>,
    pub chunk: u16,
}

impl W {
    pub fn new(chunk: u16) -> W {
        W { b: Vec::new(), f: Vec::new(), chunk }
    }
    fn rec(&mut self, len: usize, kind: Kind, name: &str) {
        self.f.push(Field { off: self.b.len(), len, kind, name: name.to_string(), chunk: self.chunk });
    }
    pub fn u8(&mut self, kind: Kind, name: &str, v: u8) {
        self.rec(1, kind, name);
        self.b.push(v);
    }
    pub fn u16(&mut self, kind: Kind, name: &str, v: u16) {
        self.rec(2, kind, name);
        self.b.extend_from_slice(&v.to_le_bytes());
    }
    pub fn i16(&mut self, kind: Kind, name: &str, v: i16) {
        self.rec(2, kind, name);
        self.b.extend_from_slice(&v.to_le_bytes());
    }
    pub fn u32(&mut self, kind: Kind, name: &str, v: u32) {
        self.rec(4, kind, name);
        self.b.extend_from_slice(&v.to_le_bytes());
    }
    pub fn i32(&mut self, kind: Kind, name: &str, v: i32) {
        self.rec(4, kind, name);
        self.b.extend_from_slice(&v.to_le_bytes());
    }
    pub fn bytes(&mut self, kind: Kind, name: &str, v: &[u8]) {
        if !v.is_empty() {
            self.rec(v.len(), kind, name);
        }
        self.b.extend_from_slice(v);
    }
    pub fn reserved(&mut self, n: usize, junk: &mut Option<&mut Rng>) {
        if n == 0 {
            return;
        }
        self.rec(n, Kind::Reserved, "reserved");
        for _ in 0..n {
            let v = match junk {
                Some(r) => r.next() as u8,
                None => 0,
            };
            self.b.push(v);
        }
    }
    pub fn string(&mut self, name: &str, s: &str) {
        let bytes = s.as_bytes();
        self.u16(Kind::StrLen, name, bytes.len() as u16);
        self.bytes(Kind::Payload, name, bytes);
    }
}

/// zlib stream of `data`. Levels 0..=9 are flate2's; 10..=13 select encoders written here (no back-references, so
/// any declared window size is valid): 10 = stored blocks of irregular sizes (some empty), 11 = fixed-Huffman
/// literal-only blocks, 12 = a mix of both, 13 = flate2 level 6 with another (informational) FLEVEL in the header.
/// The own encoders also vary the header's window-size field (CINFO 0..7, i.e. 256 bytes..32 KiB).
pub fn zlib(data: &[u8], level: u32) -> Vec<u8> {
    if level <= 9 {
        let mut e = ZlibEncoder::new(Vec::new(), Compression::new(level));
        e.write_all(data).unwrap();
        return e.finish().unwrap();
    }
    let adler = adler32(data);
    let mut r = Rng(mix(adler as u64, data.len() as u64 + level as u64));
    let header = |cinfo: u32, flevel: u32| -> [u8; 2] {
        let cmf = (cinfo << 4) | 8;
        let mut flg = flevel << 6;
        let rem = (cmf * 256 + flg) % 31;
        if rem != 0 {
            flg += 31 - rem;
        }
        [cmf as u8, flg as u8]
    };
    if level == 13 {
        let mut z = zlib(data, 6);
        let h = header(7, r.below(4) as u32);
        z[0] = h[0];
        z[1] = h[1];
        return z;
    }
    let mut out = header(r.below(8) as u32, r.below(4) as u32).to_vec();
    let mut bw = BitWriter { out: vec![], cur: 0, n: 0 };
    let mut segs: Vec<usize> = vec![];
    let mut left = data.len();
    while left > 0 {
        // now and then an empty block in between
        if r.chance8(1) {
            segs.push(0);
        }
        let cap = if r.chance8(2) { 9 } else { 700 };
        let seg = (1 + r.below(cap) as usize).min(left);
        segs.push(seg);
        left -= seg;
    }
    if segs.is_empty() {
        segs.push(0);
    }
    let mut pos = 0usize;
    for (k, &seg) in segs.iter().enumerate() {
        let last = k + 1 == segs.len();
        let stored = match level {
            10 => true,
            11 => false,
            _ => r.below(2) == 0,
        };
        bw.bits(last as u32, 1);
        if stored {
            bw.bits(0, 2);
            bw.align();
            bw.out.extend_from_slice(&(seg as u16).to_le_bytes());
            bw.out.extend_from_slice(&(!(seg as u16)).to_le_bytes());
            bw.out.extend_from_slice(&data[pos..pos + seg]);
        } else {
            bw.bits(1, 2);
            for &b in &data[pos..pos + seg] {
                if b < 144 {
                    bw.code(0x30 + b as u32, 8);
                } else {
                    bw.code(0x190 + (b as u32 - 144), 9);
                }
            }
            bw.code(0, 7);
        }
        pos += seg;
    }
    bw.align();
    out.extend(bw.out);
    out.extend_from_slice(&adler.to_be_bytes());
    out
}

pub fn adler32(data: &[u8]) -> u32 {
    let (mut a, mut b) = (1u32, 0u32);
    for &x in data {
        a = (a + x as u32) % 65521;
        b = (b + a) % 65521;
    }
    (b << 16) | a
}

struct BitWriter {
    out: Vec<u8>,
    cur: u32,
    n: u32,
}

impl BitWriter {
    /// value bits, least significant first (header fields)
    fn bits(&mut self, v: u32, n: u32) {
        for i in 0..n {
            self.cur |= ((v >> i) & 1) << self.n;
            self.n += 1;
            if self.n == 8 {
                self.out.push(self.cur as u8);
                self.cur = 0;
                self.n = 0;
            }
        }
    }
    /// Huffman code, most significant bit first
    fn code(&mut self, c: u32, n: u32) {
        for i in (0..n).rev() {
            self.bits((c >> i) & 1, 1);
        }
    }
    fn align(&mut self) {
        if self.n > 0 {
            self.out.push(self.cur as u8);
            self.cur = 0;
            self.n = 0;
        }
    }
}

/// Finished chunk (header + payload) with chunk-relative field offsets.
pub struct ChunkBuf {
    pub ctype: u16,
    pub bytes: Vec<u8>,
    pub fields: Vec<Field>,
}

pub fn finish_chunk(w: W, pad: usize, rng: &mut Rng) -> ChunkBuf {
    let ctype = w.chunk;
    let mut hdr = W::new(ctype);
    let size = 6 + w.b.len() + pad;
    hdr.u32(Kind::Size, "chunk_size", size as u32);
    hdr.u16(Kind::Enum, "chunk_type", ctype);
    let mut bytes = hdr.b;
    let mut fields = hdr.f;
    for mut f in w.f {
        f.off += 6;
        fields.push(f);
    }
    bytes.extend_from_slice(&w.b);
    if pad > 0 {
        fields.push(Field { off: bytes.len(), len: pad, kind: Kind::Reserved, name: "padding".into(), chunk: ctype });
        // padding is zero-filled half of the time (what a writer that rounds chunk sizes up would do)
        let zero = rng.next() % 2 == 0;
        for _ in 0..pad {
            let b = rng.next() as u8;
            bytes.push(if zero { 0 } else { b });
        }
    }
    ChunkBuf { ctype, bytes, fields }
}

pub fn user_data_chunk(ud: &UserData) -> W {
    let mut w = W::new(0x2020);
    // A third of the records also set bit 2 ("has properties", newer format revisions) and carry an empty
    // properties block after text and colour: a reader of the older revision ignores both the bit and the trailing
    // bytes, a reader of the newer one finds zero property maps - either way text and colour are as flagged.
    let props = (ud.text.as_ref().map_or(1, |t| t.len()) + ud.color.map_or(0, |c| c[0] as usize)) % 3 == 0;
    let flags = (ud.text.is_some() as u32) | ((ud.color.is_some() as u32) << 1) | ((props as u32) << 2);
    w.u32(Kind::Flags, "ud_flags", flags);
    if let Some(t) = &ud.text {
        w.string("ud_text", t);
    }
    if let Some(c) = &ud.color {
        w.bytes(Kind::Value, "ud_color", c);
    }
    if props {
        w.u32(Kind::Size, "ud_props_size", 8);
        w.u32(Kind::Count, "ud_props_maps", 0);
    }
    w
}

pub fn layer_chunk(l: &Layer, junk: &mut Option<&mut Rng>) -> W {
    let mut w = W::new(0x2004);
    w.u16(Kind::Flags, "layer_flags", l.flags);
    let t = match l.kind {
        LayerKind::Image => 0,
        LayerKind::Group => 1,
        LayerKind::Tilemap { .. } => 2,
    };
    w.u16(Kind::Enum, "layer_type", t);
    w.u16(Kind::Index, "layer_child_level", l.level);
    let (dw, dh) = match junk {
        Some(r) => (r.next() as u16, r.next() as u16),
        None => (0, 0),
    };
    w.u16(Kind::Reserved, "layer_default_w", dw);
    w.u16(Kind::Reserved, "layer_default_h", dh);
    w.u16(Kind::Enum, "layer_blend", l.blend);
    w.u8(Kind::Opacity, "layer_opacity", l.opacity);
    w.reserved(3, junk);
    w.string("layer_name", &l.name);
    if let LayerKind::Tilemap { tileset } = l.kind {
        w.u32(Kind::Index, "layer_tileset", tileset);
    }
    w
}

/// compress: None = raw (type 0), Some(level) = zlib (type 2)
pub fn cel_chunk(c: &Cel, compress: Option<u32>, junk: &mut Option<&mut Rng>) -> W {
    let mut w = W::new(0x2005);
    w.u16(Kind::Index, "cel_layer", c.layer);
    w.i16(Kind::Offset, "cel_x", c.x);
    w.i16(Kind::Offset, "cel_y", c.y);
    w.u8(Kind::Opacity, "cel_opacity", c.opacity);
    let ctype = match (&c.content, compress) {
        (CelContent::Image { .. }, None) => 0,
        (CelContent::Link { .. }, _) => 1,
        (CelContent::Image { .. }, Some(_)) => 2,
        (CelContent::Tilemap { .. }, _) => 3,
    };
    w.u16(Kind::Enum, "cel_type", ctype);
    w.i16(Kind::Reserved, "cel_zindex", 0);
    w.reserved(5, junk);
    match &c.content {
        CelContent::Image { w: cw, h: ch, pixels } => {
            w.u16(Kind::Dim, "cel_w", *cw);
            w.u16(Kind::Dim, "cel_h", *ch);
            match compress {
                None => w.bytes(Kind::Payload, "cel_raw", pixels),
                Some(l) => w.bytes(Kind::Payload, "cel_zlib", &zlib(pixels, l)),
            }
        }
        CelContent::Link { frame } => {
            w.u16(Kind::Index, "cel_link_frame", *frame);
        }
        CelContent::Tilemap { w: tw, h: th, bits, masks, tiles } => {
            w.u16(Kind::Dim, "tm_w", *tw);
            w.u16(Kind::Dim, "tm_h", *th);
            w.u16(Kind::Enum, "tm_bits", *bits);
            w.u32(Kind::Flags, "tm_mask_id", masks[0]);
            w.u32(Kind::Flags, "tm_mask_xflip", masks[1]);
            w.u32(Kind::Flags, "tm_mask_yflip", masks[2]);
            w.u32(Kind::Flags, "tm_mask_rot", masks[3]);
            w.reserved(10, junk);
            let mut raw = Vec::with_capacity(tiles.len() * 4);
            for t in tiles {
                raw.extend_from_slice(&t.to_le_bytes());
            }
            w.bytes(Kind::Payload, "tm_zlib", &zlib(&raw, compress.unwrap_or(6)));
        }
    }
    w
}

pub fn tags_chunk(tags: &[Tag], junk: &mut Option<&mut Rng>) -> W {
    let mut w = W::new(0x2018);
    w.u16(Kind::Count, "tags_count", tags.len() as u16);
    w.reserved(8, junk);
    for t in tags {
        w.u16(Kind::Index, "tag_from", t.from);
        w.u16(Kind::Index, "tag_to", t.to);
        w.u8(Kind::Enum, "tag_dir", t.dir);
        w.u16(Kind::Value, "tag_repeat", t.repeat);
        w.reserved(6, junk);
        let col = match junk {
            Some(r) => r.next() as u32,
            None => 0,
        };
        w.u32(Kind::Reserved, "tag_color", col);
        w.string("tag_name", &t.name);
    }
    w
}

pub fn slice_chunk(s: &Slice, junk: &mut Option<&mut Rng>) -> W {
    let mut w = W::new(0x2022);
    w.u32(Kind::Count, "slice_nkeys", s.keys.len() as u32);
    w.u32(Kind::Flags, "slice_flags", s.flags);
    let r = match junk {
        Some(r) => r.next() as u32,
        None => 0,
    };
    w.u32(Kind::Reserved, "slice_reserved", r);
    w.string("slice_name", &s.name);
    for k in &s.keys {
        w.u32(Kind::Index, "key_frame", k.frame);
        w.i32(Kind::Offset, "key_x", k.x);
        w.i32(Kind::Offset, "key_y", k.y);
        w.u32(Kind::Dim, "key_w", k.w);
        w.u32(Kind::Dim, "key_h", k.h);
        if s.flags & 1 != 0 {
            w.i32(Kind::Offset, "key_cx", k.center.0);
            w.i32(Kind::Offset, "key_cy", k.center.1);
            w.u32(Kind::Dim, "key_cw", k.center.2);
            w.u32(Kind::Dim, "key_ch", k.center.3);
        }
        if s.flags & 2 != 0 {
            w.i32(Kind::Offset, "key_px", k.pivot.0);
            w.i32(Kind::Offset, "key_py", k.pivot.1);
        }
    }
    w
}

pub fn palette_chunk(p: &NewPalette, junk: &mut Option<&mut Rng>) -> W {
    let mut w = W::new(0x2019);
    let total = match junk {
        Some(r) => r.next() as u32,
        None => p.first.wrapping_add(p.entries.len() as u32),
    };
    w.u32(Kind::Reserved, "pal_total", total);
    w.u32(Kind::Index, "pal_first", p.first);
    w.u32(Kind::Index, "pal_last", p.first.wrapping_add(p.entries.len() as u32).wrapping_sub(1));
    w.reserved(8, junk);
    for e in &p.entries {
        let mut flags = e.name.is_some() as u16;
        if let Some(r) = junk {
            flags |= (r.next() as u16) & 0xFFFE;
        }
        w.u16(Kind::Flags, "pal_entry_flags", flags);
        w.bytes(Kind::Value, "pal_entry_rgba", &e.rgba);
        if let Some(n) = &e.name {
            w.string("pal_entry_name", n);
        }
    }
    w
}

pub fn legacy_chunk(l: &LegacyPalette) -> W {
    let mut w = W::new(l.kind);
    w.u16(Kind::Count, "legacy_packets", l.packets.len() as u16);
    for p in &l.packets {
        w.u8(Kind::Offset, "legacy_skip", p.skip);
        w.u8(Kind::Count, "legacy_count", (p.colors.len() % 256) as u8);
        for c in &p.colors {
            w.bytes(Kind::Value, "legacy_rgb", c);
        }
    }
    w
}

pub fn ext_files_chunk(files: &[ExtFile], junk: &mut Option<&mut Rng>) -> W {
    let mut w = W::new(0x2008);
    w.u32(Kind::Count, "ext_count", files.len() as u32);
    w.reserved(8, junk);
    for f in files {
        w.u32(Kind::Value, "ext_id", f.id);
        w.reserved(8, junk);
        w.string("ext_name", &f.name);
    }
    w
}

pub fn tileset_chunk(t: &Tileset, level: u32, junk: &mut Option<&mut Rng>) -> W {
    let mut w = W::new(0x2023);
    w.u32(Kind::Value, "ts_id", t.id);
    w.u32(Kind::Flags, "ts_flags", t.flags);
    w.u32(Kind::Count, "ts_count", t.count);
    w.u16(Kind::Dim, "ts_tw", t.tw);
    w.u16(Kind::Dim, "ts_th", t.th);
    w.i16(Kind::Value, "ts_base_index", t.base_index);
    w.reserved(14, junk);
    w.string("ts_name", &t.name);
    if t.flags & 1 != 0 {
        w.u32(Kind::Value, "ts_ext_file", t.ext.0);
        w.u32(Kind::Value, "ts_ext_tileset", t.ext.1);
    }
    if t.flags & 2 != 0 {
        let z = zlib(&t.pixels, level);
        let declared = match junk {
            Some(r) => r.next() as u32,
            None => z.len() as u32,
        };
        w.u32(Kind::Reserved, "ts_zlen", declared);
        w.bytes(Kind::Payload, "ts_zlib", &z);
    }
    w
}

fn ignorable_chunk(rng: &mut Rng) -> W {
    match rng.below(5) {
        0 => {
            // cel extra
            let mut w = W::new(0x2006);
            w.u32(Kind::Flags, "celextra_flags", rng.next() as u32 & 1);
            for _ in 0..4 {
                w.u32(Kind::Value, "celextra_fixed", rng.next() as u32);
            }
            w.reserved(16, &mut None);
            w
        }
        1 => {
            // mask
            let mut w = W::new(0x2016);
            w.i16(Kind::Offset, "mask_x", rng.next() as i16);
            w.i16(Kind::Offset, "mask_y", rng.next() as i16);
            let mw = rng.below(9) as u16;
            let mh = rng.below(4) as u16;
            w.u16(Kind::Dim, "mask_w", mw);
            w.u16(Kind::Dim, "mask_h", mh);
            w.reserved(8, &mut None);
            w.string("mask_name", "m");
            let n = ((mw as usize + 7) / 8) * mh as usize;
            let data: Vec<u8> = (0..n).map(|_| rng.next() as u8).collect();
            w.bytes(Kind::Payload, "mask_bits", &data);
            w
        }
        2 => W::new(0x2017),
        3 => color_profile_chunk(0, 0, rng.next() as u32),
        _ => color_profile_chunk(1, 0, rng.next() as u32),
    }
}

pub fn color_profile_chunk(ptype: u16, flags: u16, gamma: u32) -> W {
    let mut w = W::new(0x2007);
    w.u16(Kind::Enum, "cp_type", ptype);
    w.u16(Kind::Flags, "cp_flags", flags);
    w.u32(Kind::Value, "cp_gamma", gamma);
    w.reserved(8, &mut None);
    if ptype == 2 {
        w.u32(Kind::Size, "cp_icc_len", 4);
        w.bytes(Kind::Payload, "cp_icc", &[1, 2, 3, 4]);
    }
    w
}

struct Item {
    key: u64,
    chunks: Vec<ChunkBuf>,
}

struct Ctx<'a> {
    plan: &'a Plan,
    rng: Rng,
    junk_rng: Rng,
}

impl<'a> Ctx<'a> {
    fn fin(&mut self, w: W) -> ChunkBuf {
        let pad = if self.rng.chance8(self.plan.pad) { 1 + self.rng.below(9) as usize } else { 0 };
        finish_chunk(w, pad, &mut self.rng)
    }
    /// entity chunk followed by optional ignorable chunks and its user data records
    fn with_retinue(&mut self, w: W, uds: &[&UserData]) -> Vec<ChunkBuf> {
        let mut v = vec![self.fin(w)];
        for ud in uds {
            while self.rng.chance8(self.plan.ignorable) {
                let ig = ignorable_chunk(&mut self.rng);
                v.push(self.fin(ig));
            }
            v.push(self.fin(user_data_chunk(ud)));
        }
        v
    }
}

pub fn encode(s: &Sprite, plan: &Plan) -> Encoded {
    let mut cx = Ctx { plan, rng: Rng(mix(plan.seed, 1)), junk_rng: Rng(mix(plan.seed, 2)) };
    let junk_on = plan.junk;
    macro_rules! junk {
        () => {
            &mut (if junk_on { Some(&mut cx.junk_rng) } else { None })
        };
    }

    // ---- header ----
    let mut h = W::new(0);
    h.u32(Kind::Reserved, "file_size", 0); // patched below unless junk
    h.u16(Kind::Magic, "magic", 0xA5E0);
    h.u16(Kind::Count, "num_frames", s.frames.len() as u16);
    h.u16(Kind::Dim, "width", s.width);
    h.u16(Kind::Dim, "height", s.height);
    h.u16(Kind::Enum, "depth", s.fmt.depth());
    h.u32(Kind::Reserved, "hdr_flags", 1);
    let speed = if junk_on { cx.junk_rng.next() as u16 } else { 100 };
    h.u16(Kind::Reserved, "speed", speed);
    h.reserved(8, junk!());
    h.u8(Kind::Index, "transparent_index", s.transparent);
    h.reserved(3, junk!());
    let ncol = if junk_on { cx.junk_rng.next() as u16 } else { 0 };
    h.u16(Kind::Reserved, "num_colors", ncol);
    let k = 1 + (cx.rng.below(255) as u8);
    let (pw, ph) = match plan.ratio {
        0 => (1, 1),
        1 => (0, k),
        2 => (k, 0),
        _ => (0, 0),
    };
    h.u8(Kind::Enum, "pixel_w", pw);
    h.u8(Kind::Enum, "pixel_h", ph);
    for n in ["grid_x", "grid_y", "grid_w", "grid_h"] {
        let v = if junk_on { cx.junk_rng.next() as u16 } else { 0 };
        h.u16(Kind::Reserved, n, v);
    }
    h.reserved(84, junk!());
    assert_eq!(h.b.len(), 128);

    let mut out = Encoded { bytes: h.b, fields: h.f, frame_ends: vec![], frame_starts: vec![], chunks: vec![] };

    let layer_key_base: Vec<u64>;
    // ---- frames ----
    // keys for layers (ascending) so cels of frame 0 can be placed after their layer
    {
        let mut keys: Vec<u64> = (0..s.layers.len()).map(|_| cx.rng.next() >> 1).collect();
        keys.sort();
        layer_key_base = keys;
    }

    // a legacy chunk may only move to a later frame when a new-format palette (which must win) exists;
    // otherwise indexed cels of earlier frames would have no palette yet
    let legacy_fi = if s.palette.is_some() { (plan.legacy_frame as usize).min(s.frames.len().saturating_sub(1)) } else { 0 };
    for (fi, frame) in s.frames.iter().enumerate() {
        let mut items: Vec<Item> = Vec::new();
        let mut seq = 0u64;
        let mut key = |cx: &mut Ctx, forced: Option<u64>| -> u64 {
            seq += 1;
            if plan.shuffle {
                forced.unwrap_or_else(|| cx.rng.next() >> 1)
            } else {
                seq << 32
            }
        };
        if fi == 0 {
            if plan.color_profile != 0 {
                let w = color_profile_chunk((plan.color_profile - 1) as u16, 0, 0);
                let c = cx.fin(w);
                let k = key(&mut cx, None);
                items.push(Item { key: k, chunks: vec![c] });
            }
            if !s.ext_files.is_empty() {
                let w = ext_files_chunk(&s.ext_files, junk!());
                let c = cx.fin(w);
                let k = key(&mut cx, None);
                items.push(Item { key: k, chunks: vec![c] });
            }
            if let Some(p) = &s.palette {
                let w = palette_chunk(p, junk!());
                let c = cx.fin(w);
                let k = key(&mut cx, None);
                items.push(Item { key: k, chunks: vec![c] });
            }
            if let (Some(l), true) = (&s.legacy, legacy_fi == 0) {
                let uds: Vec<&UserData> = s.sprite_user_data.iter().collect();
                let chunks = cx.with_retinue(legacy_chunk(l), &uds);
                let k = key(&mut cx, None);
                items.push(Item { key: k, chunks });
            } else if plan.legacy_beside_new && s.legacy.is_none() {
                if let Some(p) = &s.palette {
                    let cols: Vec<[u8; 3]> = p.entries.iter().take(256).map(|e| [e.rgba[0], e.rgba[1], e.rgba[2]]).collect();
                    if !cols.is_empty() && p.first < 256 {
                        let l = LegacyPalette { kind: 0x0004, packets: vec![LegacyPacket { skip: p.first as u8, colors: cols }] };
                        let c = cx.fin(legacy_chunk(&l));
                        let k = key(&mut cx, None);
                        items.push(Item { key: k, chunks: vec![c] });
                    }
                }
            }
            for t in &s.tilesets {
                let lvl = cx.rng.below(if plan.zlevel >= 10 { 14 } else { 10 }) as u32;
                let w = tileset_chunk(t, lvl, junk!());
                let c = cx.fin(w);
                let k = key(&mut cx, None);
                items.push(Item { key: k, chunks: vec![c] });
            }
            for (li, l) in s.layers.iter().enumerate() {
                let w = layer_chunk(l, junk!());
                let uds: Vec<&UserData> = l.user_data.iter().collect();
                let chunks = cx.with_retinue(w, &uds);
                let k = key(&mut cx, Some(layer_key_base[li]));
                items.push(Item { key: k, chunks });
            }
            if let Some(tags) = &s.tags {
                let w = tags_chunk(tags, junk!());
                let uds: Vec<&UserData> = s.tag_user_data.iter().collect();
                let chunks = cx.with_retinue(w, &uds);
                let k = key(&mut cx, None);
                items.push(Item { key: k, chunks });
            }
            // slices keep their relative order
            let mut skeys: Vec<u64> = (0..s.slices.len()).map(|_| cx.rng.next() >> 1).collect();
            skeys.sort();
            for (si, sl) in s.slices.iter().enumerate() {
                let w = slice_chunk(sl, junk!());
                let uds: Vec<&UserData> = sl.user_data.iter().collect();
                let chunks = cx.with_retinue(w, &uds);
                let k = key(&mut cx, Some(skeys[si]));
                items.push(Item { key: k, chunks });
            }
        }
        if fi > 0 && fi == legacy_fi {
            if let Some(l) = &s.legacy {
                let uds: Vec<&UserData> = s.sprite_user_data.iter().collect();
                let chunks = cx.with_retinue(legacy_chunk(l), &uds);
                let k = key(&mut cx, None);
                items.push(Item { key: k, chunks });
            }
        }
        for c in &frame.cels {
            let h = mix(plan.seed, ((fi as u64) << 20) ^ (c.layer as u64) ^ 0xCE1);
            let zl = if plan.zlevel >= 10 { (h >> 8) % 14 } else { plan.zlevel as u64 } as u32;
            let compress = match plan.compress {
                0 => None,
                1 => Some(zl),
                _ => {
                    if h & 1 == 0 {
                        None
                    } else {
                        Some(zl)
                    }
                }
            };
            let w = cel_chunk(c, compress, junk!());
            let uds: Vec<&UserData> = c.user_data.iter().collect();
            let chunks = cx.with_retinue(w, &uds);
            let mut k = key(&mut cx, None);
            if plan.shuffle && fi == 0 {
                if let Some(lk) = layer_key_base.get(c.layer as usize) {
                    if k <= *lk {
                        k = lk + 1 + (k % 1024);
                    }
                }
            }
            items.push(Item { key: k, chunks });
        }
        items.sort_by_key(|i| i.key);
        // ignorable chunks between items
        let mut all: Vec<ChunkBuf> = Vec::new();
        for it in items {
            while cx.rng.chance8(plan.ignorable) {
                let ig = ignorable_chunk(&mut cx.rng);
                all.push(cx.fin(ig));
            }
            all.extend(it.chunks);
        }
        while cx.rng.chance8(plan.ignorable) {
            let ig = ignorable_chunk(&mut cx.rng);
            all.push(cx.fin(ig));
        }
        if plan.pad_to.1 > 0 && plan.pad_to.0 as usize == fi {
            while all.len() < plan.pad_to.1 as usize {
                all.push(finish_chunk(W::new(0x2017), 0, &mut cx.rng));
            }
        }
        let n = all.len();
        let body: usize = all.iter().map(|c| c.bytes.len()).sum();
        let form = match plan.count_form {
            3 => cx.rng.below(3) as u8,
            f => f,
        };
        let (old, new) = if n > 0xFFFF {
            (0xFFFFu16, n as u32)
        } else if n == 0xFFFF {
            // exactly 65535 chunks: old-style (0xFFFF, 0) is legal ("if the new field is 0 use the old one")
            match form {
                0 => (0xFFFFu16, 0u32),
                _ => (0xFFFFu16, n as u32),
            }
        } else {
            match form {
                0 => (n as u16, 0u32),
                1 => (n as u16, n as u32),
                _ => {
                    if n == 0 {
                        (0, 0)
                    } else {
                        (0xFFFF, n as u32)
                    }
                }
            }
        };
        let start = out.bytes.len();
        out.frame_starts.push(start);
        let mut fh = W::new(1);
        fh.u32(Kind::Size, "frame_bytes", (16 + body) as u32);
        fh.u16(Kind::Magic, "frame_magic", 0xF1FA);
        fh.u16(Kind::Count, "frame_old_chunks", old);
        fh.u16(Kind::Value, "frame_duration", frame.duration);
        fh.reserved(2, junk!());
        fh.u32(Kind::Count, "frame_new_chunks", new);
        for mut f in fh.f {
            f.off += start;
            out.fields.push(f);
        }
        out.bytes.extend_from_slice(&fh.b);
        for c in all {
            let cs = out.bytes.len();
            for mut f in c.fields {
                f.off += cs;
                out.fields.push(f);
            }
            out.bytes.extend_from_slice(&c.bytes);
            out.chunks.push(Span { start: cs, end: out.bytes.len(), ctype: c.ctype, frame: fi as u32 });
        }
        out.frame_ends.push(out.bytes.len());
    }
    let total = out.bytes.len() as u32;
    // the header's file-size field is ignored by readers; junk plans write anything there, including
    // values smaller than the real size (stale after an append) and zero
    let fs = if junk_on {
        match cx.junk_rng.next() % 4 {
            0 => 0,
            1 => (cx.junk_rng.next() % (total as u64 + 1)) as u32,
            2 => {
                if cx.junk_rng.next() % 2 == 0 && !out.frame_ends.is_empty() {
                    // exactly a frame boundary (stale size after frames were appended)
                    out.frame_ends[(cx.junk_rng.next() % out.frame_ends.len() as u64) as usize] as u32
                } else {
                    total.wrapping_add(1 + (cx.junk_rng.next() % 1000) as u32)
                }
            }
            _ => cx.junk_rng.next() as u32,
        }
    } else {
        total
    };
    out.bytes[0..4].copy_from_slice(&fs.to_le_bytes());
    if plan.trailing > 0 && plan.trailing % 3 == 0 && !out.frame_starts.is_empty() && out.frame_ends.len() == out.frame_starts.len() {
        // a third of the files with trailing bytes end in a stale copy of their last frame (what a writer leaves
        // behind when it lowers the frame count without truncating the file): the header's frame count decides
        let (a, b) = (*out.frame_starts.last().unwrap(), out.last_frame_end());
        let stale = out.bytes[a..b].to_vec();
        out.bytes.extend(stale);
    } else {
        for _ in 0..plan.trailing {
            out.bytes.push(cx.rng.next() as u8);
        }
    }
    out
}

pub fn patch(bytes: &mut [u8], f: &Field, value: u64) {
    let le = value.to_le_bytes();
    let n = f.len.min(8);
    bytes[f.off..f.off + n].copy_from_slice(&le[..n]);
}

/// Writes non-zero values into the two bytes after the cel type of some cel chunks (reserved for the library's
/// format revision, the per-cel z-index in newer ones). Only for checks whose oracle does not depend on the order
/// in which a frame's cels are drawn.
pub fn junk_zindex(enc: &mut Encoded, rng: &mut Rng) {
    let fields: Vec<Field> = enc.fields.iter().filter(|f| f.name == "cel_zindex").cloned().collect();
    for f in fields {
        if rng.chance8(5) {
            let v: i16 = match rng.below(8) {
                0 => 32767,
                1 => -32768,
                2 => 32766,
                3 => -2,
                4 => 2,
                5 => -1,
                _ => 1,
            };
            patch(&mut enc.bytes, &f, v as u16 as u64);
        }
    }
}

pub fn read_field(bytes: &[u8], f: &Field) -> u64 {
    let mut le = [0u8; 8];
    let n = f.len.min(8);
    le[..n].copy_from_slice(&bytes[f.off..f.off + n]);
    u64::from_le_bytes(le)
}
