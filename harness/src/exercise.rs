//! "Call everything in range" driver for C05 (and C16): every public accessor with in-range
//! arguments, in a seeded order, under the work guard.
use crate::encode::Rng;
use crate::scan::Hints;
use asefile::*;
use std::result::Result;

#[derive(Clone, Debug, Default)]
pub struct ExStats {
    pub calls: u64,
    pub images: u64,
    pub skipped_heavy: u64,
    pub tilemaps: u64,
    pub linked_or_indexed: bool,
}

#[derive(Clone, Debug)]
enum Op {
    Header,
    Layer(u32),
    FrameImage(u32),
    Cel(u32, u32),
    Tilemap(u32, u32),
    Tileset(u32),
    Palette,
    Tags,
    Slices,
    Ext,
    Debug,
    Names,
}

fn sample_indices(n: u32, cap: u32, r: &mut Rng) -> Vec<u32> {
    if n <= cap {
        (0..n).collect()
    } else {
        let mut v: Vec<u32> = vec![0, n - 1, n / 2];
        while (v.len() as u32) < cap {
            v.push(r.below(n as u64) as u32);
        }
        v.sort();
        v.dedup();
        v
    }
}

pub struct Guard {
    pub render_ok: bool,
    pub tilemap_ok: bool,
    pub debug_ok: bool,
    pub cel_ok: bool,
}

pub fn guard(f: &AsepriteFile, h: &Hints) -> Guard {
    let canvas = f.width() as u64 * f.height() as u64;
    let max_area = f.tilesets().iter().map(|t| t.tile_size().width() as u64 * t.tile_size().height() as u64).max().unwrap_or(0);
    let render_ok = canvas <= (1 << 22);
    let cel_ok = h.max_cel_w.saturating_mul(f.height() as u64) <= (1 << 24);
    Guard { render_ok, tilemap_ok: h.max_tilemap_tiles.saturating_mul(max_area.max(1)) <= (1 << 24), debug_ok: h.total_declared_pixels <= (1 << 20) && h.max_tilemap_tiles <= (1 << 20), cel_ok }
}

/// Returns Err(description) when a returned image has undocumented dimensions. Panics propagate.
pub fn exercise(f: &AsepriteFile, seed: u64, hints: &Hints) -> Result<ExStats, String> {
    let mut r = Rng(seed ^ 0xE8E7C15E);
    let mut st = ExStats::default();
    let g = guard(f, hints);
    let nf = f.num_frames();
    let nl = f.num_layers();
    let canvas = (f.width() as u32, f.height() as u32);
    let mut ops: Vec<Op> = vec![Op::Header, Op::Palette, Op::Tags, Op::Slices, Op::Ext, Op::Debug, Op::Names];
    let frames = sample_indices(nf, 24, &mut r);
    let layers = sample_indices(nl, 48, &mut r);
    for l in sample_indices(nl, 400, &mut r) {
        ops.push(Op::Layer(l));
    }
    for fr in &frames {
        ops.push(Op::FrameImage(*fr));
        for l in &layers {
            ops.push(Op::Cel(*fr, *l));
            ops.push(Op::Tilemap(*l, *fr));
        }
    }
    let mut ts_ids: Vec<u32> = f.tilesets().iter().map(|t| t.id()).collect();
    ts_ids.sort();
    for id in ts_ids.iter().take(16) {
        ops.push(Op::Tileset(*id));
    }
    // history dimension: seeded permutation plus some repetition
    for i in (1..ops.len()).rev() {
        let j = r.below(i as u64 + 1) as usize;
        ops.swap(i, j);
    }
    let extra = ops.len().min(16);
    for _ in 0..extra {
        let k = r.below(ops.len() as u64) as usize;
        ops.push(ops[k].clone());
    }
    let check_dims = |img: &image::RgbaImage, want: (u32, u32), what: &str| -> Result<(), String> {
        if img.dimensions() != want {
            Err(format!("{} has dimensions {:?}, documented {:?}", what, img.dimensions(), want))
        } else {
            Ok(())
        }
    };
    for op in ops {
        st.calls += 1;
        match op {
            Op::Header => {
                let _ = (f.width(), f.height(), f.size(), f.num_frames(), f.num_layers(), f.pixel_format(), f.is_indexed_color(), f.transparent_color_index(), f.num_tags());
                let _ = f.pixel_format().bytes_per_pixel();
                let _ = f.sprite_user_data().map(|u| (u.text.clone(), u.color));
                let n = f.layers().count();
                if n as u32 != nl {
                    return Err(format!("layers() yields {} of {}", n, nl));
                }
            }
            Op::Layer(l) => {
                let ly = f.layer(l);
                let _ = (ly.id(), ly.flags(), ly.name().len(), ly.blend_mode(), ly.opacity(), ly.layer_type(), ly.is_tilemap(), ly.user_data().is_some());
                let _ = ly.is_visible();
                let mut p = ly.parent().map(|q| q.id());
                let mut steps = 0u32;
                while let Some(q) = p {
                    steps += 1;
                    if steps > 70000 {
                        return Err("parent chain does not terminate".into());
                    }
                    p = f.layer(q).parent().map(|x| x.id());
                }
                if nf > 0 {
                    let c = ly.frame(r.below(nf as u64) as u32);
                    let _ = (c.is_empty(), c.top_left());
                }
                let _ = format!("{:?}", ly.layer_type());
            }
            Op::FrameImage(fr) => {
                let frame = f.frame(fr);
                let _ = (frame.id(), frame.duration());
                if g.render_ok && g.tilemap_ok && g.cel_ok {
                    let img = frame.image();
                    st.images += 1;
                    check_dims(&img, canvas, "Frame::image")?;
                } else {
                    st.skipped_heavy += 1;
                }
            }
            Op::Cel(fr, l) => {
                let a = f.cel(fr, l);
                let frame_ref = f.frame(fr);
                let b = frame_ref.layer(l);
                let layer_ref = f.layer(l);
                let c = layer_ref.frame(fr);
                for cel in [&a, &b, &c] {
                    let _ = (cel.frame(), cel.layer(), cel.is_empty(), cel.top_left(), cel.is_tilemap(), cel.user_data().is_some());
                }
                if !a.is_empty() && (a.is_tilemap() || f.is_indexed_color()) {
                    st.linked_or_indexed = true;
                }
                if g.render_ok && g.tilemap_ok && g.cel_ok {
                    let img = a.image();
                    st.images += 1;
                    check_dims(&img, canvas, "Cel::image")?;
                } else {
                    st.skipped_heavy += 1;
                }
            }
            Op::Tilemap(l, fr) => {
                if let Some(tm) = f.tilemap(l, fr) {
                    st.tilemaps += 1;
                    let (w, h) = (tm.width(), tm.height());
                    let _ = (tm.tile_size(), tm.tileset().id(), tm.tile_offsets(), tm.pixel_offsets());
                    for y in 0..h.min(48) {
                        for x in 0..w.min(48) {
                            let _ = tm.tile(x, y).id();
                        }
                    }
                    let ext = [0u32, 1, w.saturating_sub(1), w, w + 1, h, 0x7FFF_FFFF, 0x8000_0000, 0x8000_0001, 0xFFFF_FFFF, 65535, 65536];
                    for &x in &ext {
                        for &y in &ext {
                            let _ = tm.tile(x, y).id();
                        }
                    }
                    if g.render_ok && g.tilemap_ok {
                        let img = tm.image();
                        st.images += 1;
                        check_dims(&img, canvas, "Tilemap::image")?;
                    } else {
                        st.skipped_heavy += 1;
                    }
                }
            }
            Op::Tileset(id) => {
                let ts = match f.tilesets().get(id) {
                    Some(t) => t,
                    None => return Err(format!("tilesets().get({}) is None for an id that iter() reported", id)),
                };
                let _ = (ts.id(), ts.empty_tile_is_id_zero(), ts.tile_count(), ts.base_index(), ts.name().len(), ts.external_file().map(|e| (e.external_file_id(), e.tileset_id())));
                let (tw, th) = (ts.tile_size().width() as u64, ts.tile_size().height() as u64);
                let n = ts.tile_count();
                let total = tw * th * n as u64;
                if total <= (1 << 22) {
                    let img = ts.image();
                    st.images += 1;
                    check_dims(&img, (tw as u32, (th * n as u64) as u32), "Tileset::image")?;
                    if n > 0 {
                        let mut idx = vec![0u32, n - 1, n / 2];
                        if n > 1 {
                            idx.push(1);
                        }
                        // tile_image converts the whole tileset on every call: bound the total work
                        if total * idx.len() as u64 <= (1 << 23) {
                            for i in idx {
                                let img = ts.tile_image(i);
                                st.images += 1;
                                check_dims(&img, (tw as u32, th as u32), "Tileset::tile_image")?;
                            }
                        }
                    }
                } else {
                    st.skipped_heavy += 1;
                }
            }
            Op::Palette => {
                if let Some(p) = f.palette() {
                    let n = p.num_colors();
                    for i in (0..300).chain([n, n.wrapping_sub(1), u32::MAX, 65535, 65536]) {
                        if let Some(e) = p.color(i) {
                            let _ = (e.id(), e.raw_rgba8(), e.red(), e.green(), e.blue(), e.alpha(), e.name().map(|s| s.len()));
                        }
                    }
                }
            }
            Op::Tags => {
                let n = f.num_tags();
                for i in 0..n.min(300) {
                    let t = f.tag(i);
                    let _ = (t.name().len(), t.from_frame(), t.to_frame(), t.animation_direction(), t.repeat(), t.user_data().is_some());
                    let _ = f.tag_by_name(t.name()).is_some();
                    if f.get_tag(i).is_none() {
                        return Err(format!("get_tag({}) is None with num_tags {}", i, n));
                    }
                }
                let _ = (f.get_tag(n).is_none(), f.get_tag(u32::MAX).is_none());
            }
            Op::Slices => {
                for s in f.slices().iter().take(300) {
                    let _ = (s.name.len(), s.user_data.is_some());
                    for k in s.keys.iter().take(300) {
                        let _ = (k.from_frame, k.origin, k.size, k.pivot, k.slice9.as_ref().map(|s| (s.center_x, s.center_y, s.center_width, s.center_height)));
                    }
                }
            }
            Op::Ext => {
                let m = f.external_files().map();
                for (id, e) in m.iter().take(300) {
                    let _ = (e.id().value(), e.name().len());
                    if f.external_file_by_id(id).is_none() || f.external_files().get(id).is_none() {
                        return Err("external_file_by_id is None for an id in map()".into());
                    }
                }
                let _ = (f.tilesets().len(), f.tilesets().is_empty());
            }
            Op::Debug => {
                if g.debug_ok && (nf as u64) * (nl as u64) <= (1 << 20) {
                    let s = format!("{:?}", f);
                    let _ = s.len();
                } else {
                    st.skipped_heavy += 1;
                }
            }
            Op::Names => {
                for l in sample_indices(nl, 24, &mut r) {
                    let name = f.layer(l).name().to_string();
                    if f.layer_by_name(&name).is_none() {
                        return Err(format!("layer_by_name of an existing name is None (layer {})", l));
                    }
                }
                let _ = f.layer_by_name("\u{1}absent");
                let _ = f.tag_by_name("\u{1}absent");
            }
        }
    }
    Ok(st)
}
