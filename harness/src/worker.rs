//! Isolated worker processes (C04/C05/C12): a long-lived child reads cases on stdin, runs each on a
//! 2 MiB thread under catch_unwind inside a counting-allocator window, and answers with JSON lines.
use crate::alloc;
use crate::runner::{guarded, short_loc};
use serde_json::{json, Value};
use std::io::{BufRead, BufReader, Read, Write};
use std::process::{Child, ChildStdin, ChildStdout, Command, Stdio};
use std::sync::atomic::{AtomicBool, AtomicU64, Ordering};
use std::sync::{Arc, Mutex};
use std::time::{Duration, Instant};

pub const STACK: usize = 2 << 20;

struct CountingReader<'a> {
    data: &'a [u8],
    pos: usize,
}

impl<'a> Read for CountingReader<'a> {
    fn read(&mut self, buf: &mut [u8]) -> std::io::Result<usize> {
        let n = buf.len().min(self.data.len() - self.pos);
        buf[..n].copy_from_slice(&self.data[self.pos..self.pos + n]);
        self.pos += n;
        alloc::add_delivered(n as u64);
        Ok(n)
    }
}

fn err_kind(e: &asefile::AsepriteParseError) -> &'static str {
    use asefile::AsepriteParseError::*;
    match e {
        InvalidInput(_) => "InvalidInput",
        UnsupportedFeature(_) => "UnsupportedFeature",
        InternalError(_) => "InternalError",
        IoError(_) => "IoError",
    }
}

pub const F_EXERCISE: u32 = 1;
pub const F_DENY: u32 = 2;
/// load through AsepriteFile::read_file from a scratch file instead of AsepriteFile::read
pub const F_READFILE: u32 = 4;

fn run_case(data: Arc<Vec<u8>>, flags: u32, seed: u64, out: Arc<Mutex<std::io::Stdout>>) {
    let emit = move |v: Value| {
        let mut o = out.lock().unwrap();
        let _ = writeln!(o, "{}", v);
        let _ = o.flush();
    };
    let hints = crate::scan::scan(&data).hints;
    let (res, ws, consumed) = if flags & F_READFILE != 0 {
        // path-based entry point: the whole file is what the reader can deliver
        // the file name is not valid UTF-8 (any path the OS accepts is a legitimate argument)
        let path = {
            use std::os::unix::ffi::OsStringExt;
            let mut p = std::env::temp_dir().into_os_string().into_vec();
            p.extend_from_slice(b"/worker-\xff\xfe-");
            p.extend_from_slice(std::process::id().to_string().as_bytes());
            p.extend_from_slice(b".ase");
            std::path::PathBuf::from(std::ffi::OsString::from_vec(p))
        };
        // (a file system that refuses such names gets a plain one)
        let path = if std::fs::write(&path, &data[..]).is_ok() {
            path
        } else {
            let p = std::env::temp_dir().join(format!("worker-{}.ase", std::process::id()));
            let _ = std::fs::write(&p, &data[..]);
            p
        };
        alloc::open_window(flags & F_DENY != 0);
        alloc::add_delivered(data.len() as u64);
        let res = guarded(|| asefile::AsepriteFile::read_file(&path));
        let ws = alloc::close_window();
        let _ = std::fs::remove_file(&path);
        (res, ws, data.len())
    } else {
        alloc::open_window(flags & F_DENY != 0);
        let mut rd = CountingReader { data: &data, pos: 0 };
        let res = guarded(|| asefile::AsepriteFile::read(&mut rd));
        let ws = alloc::close_window();
        let pos = rd.pos;
        (res, ws, pos)
    };
    let mem = json!({"peak": ws.peak, "max_req": ws.max_req, "delivered": ws.delivered, "worst_excess": ws.worst_excess, "worst_delivered": ws.worst_delivered});
    match res {
        Err((loc, msg)) => emit(json!({"phase": "done", "load": "panic", "loc": short_loc(&loc), "msg": msg, "consumed": consumed, "mem": mem})),
        Ok(Err(e)) => emit(json!({"phase": "done", "load": "err", "kind": err_kind(&e), "msg": e.to_string().chars().take(160).collect::<String>(), "consumed": consumed, "mem": mem})),
        Ok(Ok(f)) => {
            if flags & F_EXERCISE == 0 {
                emit(json!({"phase": "done", "load": "ok", "consumed": consumed, "mem": mem, "use": "skipped"}));
                return;
            }
            emit(json!({"phase": "loaded", "consumed": consumed, "mem": mem}));
            let r = guarded(|| crate::exercise::exercise(&f, seed, &hints));
            match r {
                Err((loc, msg)) => emit(json!({"phase": "done", "load": "ok", "use": "panic", "loc": short_loc(&loc), "msg": msg, "consumed": consumed, "mem": mem})),
                Ok(Err(d)) => emit(json!({"phase": "done", "load": "ok", "use": "dims", "msg": d, "consumed": consumed, "mem": mem})),
                Ok(Ok(st)) => emit(json!({"phase": "done", "load": "ok", "use": "ok", "consumed": consumed, "mem": mem,
                    "calls": st.calls, "images": st.images, "skipped_heavy": st.skipped_heavy, "tilemaps": st.tilemaps, "special": st.linked_or_indexed})),
            }
        }
    }
}

pub fn worker_main() -> ! {
    // make absurd reservations fail the way they would on an ordinary machine
    unsafe {
        let lim = libc::rlimit { rlim_cur: 16 << 30, rlim_max: 16 << 30 };
        libc::setrlimit(libc::RLIMIT_AS, &lim);
    }
    let stdin = std::io::stdin();
    let mut inp = stdin.lock();
    let out = Arc::new(Mutex::new(std::io::stdout()));
    let mut case_tx: Option<(std::sync::mpsc::Sender<(Arc<Vec<u8>>, u32, u64)>, std::sync::mpsc::Receiver<()>)> = None;
    loop {
        let mut hdr = [0u8; 16];
        if inp.read_exact(&mut hdr).is_err() {
            std::process::exit(0);
        }
        let flags = u32::from_le_bytes(hdr[0..4].try_into().unwrap());
        let len = u32::from_le_bytes(hdr[4..8].try_into().unwrap()) as usize;
        let seed = u64::from_le_bytes(hdr[8..16].try_into().unwrap());
        let mut data = vec![0u8; len];
        if inp.read_exact(&mut data).is_err() {
            std::process::exit(0);
        }
        let data = Arc::new(data);
        // all cases of this worker run on ONE long-lived 2 MiB thread, so that thread-local and
        // process-wide state carries over from one load to the next (histories of loads)
        if case_tx.is_none() {
            let (tx, rx) = std::sync::mpsc::channel::<(Arc<Vec<u8>>, u32, u64)>();
            let (dtx, drx) = std::sync::mpsc::channel::<()>();
            let out2 = out.clone();
            std::thread::Builder::new()
                .stack_size(STACK)
                .spawn(move || {
                    while let Ok((d, fl, sd)) = rx.recv() {
                        run_case(d, fl, sd, out2.clone());
                        let _ = dtx.send(());
                    }
                })
                .expect("spawn case thread");
            case_tx = Some((tx, drx));
        }
        let (tx, drx) = case_tx.as_ref().unwrap();
        if tx.send((data, flags, seed)).is_err() || drx.recv().is_err() {
            // the case thread is gone (it cannot unwind past run_case; only a fatal error ends it)
            std::process::exit(4);
        }
    }
}

// ------------------------------------------------------------------ supervisor

#[derive(Clone, Debug)]
pub enum LoadV {
    Ok,
    Err(String),
    Panic { loc: String, msg: String },
}

#[derive(Clone, Debug)]
pub enum UseV {
    NotRun,
    Ok { calls: u64, images: u64, skipped_heavy: u64, special: bool },
    Panic { loc: String, msg: String },
    Dims(String),
    Died { what: String },
}

#[derive(Clone, Debug)]
pub enum Verdict {
    Done { load: LoadV, usev: UseV, consumed: u64, mem: Mem },
    Denied { live: u64, req: u64, delivered: u64, bound: u64 },
    /// process died during load without a verdict
    Died { what: String },
    /// killed by the wall-clock watchdog; cpu_ms = CPU time the worker consumed on this case
    Timeout { cpu_ms: u64, loaded: bool },
}

#[derive(Clone, Copy, Debug, Default)]
pub struct Mem {
    pub peak: i64,
    pub max_req: u64,
    pub delivered: u64,
    pub worst_excess: i64,
    pub worst_delivered: u64,
}

struct Handle {
    child: Child,
    stdin: ChildStdin,
    stdout: BufReader<ChildStdout>,
    stderr_tail: Arc<Mutex<String>>,
}

pub struct Slot {
    h: Mutex<Option<Handle>>,
    started_ms: AtomicU64,
    pid: AtomicU64,
    killed: AtomicBool,
    cpu_at_start: AtomicU64,
    cpu_at_kill: AtomicU64,
}

pub struct Pool {
    slots: Vec<Slot>,
    epoch: Instant,
    timeout_ms: AtomicU64,
    stop: Arc<AtomicBool>,
    pub restarts: AtomicU64,
    exe: Option<String>,
}

/// user+system CPU time of a process in milliseconds (from /proc/<pid>/stat; 0 if unavailable)
pub fn proc_cpu_ms(pid: u64) -> u64 {
    let s = match std::fs::read_to_string(format!("/proc/{}/stat", pid)) {
        Ok(s) => s,
        Err(_) => return 0,
    };
    // fields after the ")" that closes the command name: state is field 3, utime 14, stime 15
    let rest = match s.rfind(')') {
        Some(i) => &s[i + 1..],
        None => return 0,
    };
    let f: Vec<&str> = rest.split_whitespace().collect();
    let ticks: u64 = f.get(11).and_then(|x| x.parse::<u64>().ok()).unwrap_or(0) + f.get(12).and_then(|x| x.parse::<u64>().ok()).unwrap_or(0);
    let hz = unsafe { libc::sysconf(libc::_SC_CLK_TCK) }.max(1) as u64;
    ticks * 1000 / hz
}

fn spawn_worker(exe_override: &Option<String>) -> Handle {
    let exe = match exe_override {
        Some(p) => std::path::PathBuf::from(p),
        None => std::env::current_exe().expect("current_exe"),
    };
    let mut child = Command::new(exe).arg("--worker").stdin(Stdio::piped()).stdout(Stdio::piped()).stderr(Stdio::piped()).spawn().expect("spawn worker");
    let stdin = child.stdin.take().unwrap();
    let stdout = BufReader::new(child.stdout.take().unwrap());
    let mut stderr = child.stderr.take().unwrap();
    let tail = Arc::new(Mutex::new(String::new()));
    let t2 = tail.clone();
    std::thread::spawn(move || {
        let mut buf = [0u8; 1024];
        loop {
            match stderr.read(&mut buf) {
                Ok(0) | Err(_) => break,
                Ok(n) => {
                    let mut t = t2.lock().unwrap();
                    t.push_str(&String::from_utf8_lossy(&buf[..n]));
                    if t.len() > 4096 {
                        let cut = t.len() - 2048;
                        let mut c = cut;
                        while !t.is_char_boundary(c) {
                            c += 1;
                        }
                        *t = t[c..].to_string();
                    }
                }
            }
        }
    });
    Handle { child, stdin, stdout, stderr_tail: tail }
}

impl Pool {
    pub fn new(n: usize) -> Arc<Pool> {
        Pool::with_exe(n, None)
    }

    /// workers running another build of vcheck (e.g. the unoptimised `dev0` profile)
    pub fn with_exe(n: usize, exe: Option<String>) -> Arc<Pool> {
        let pool = Arc::new(Pool {
            exe,
            slots: (0..n).map(|_| Slot { h: Mutex::new(None), started_ms: AtomicU64::new(0), pid: AtomicU64::new(0), killed: AtomicBool::new(false), cpu_at_start: AtomicU64::new(0), cpu_at_kill: AtomicU64::new(0) }).collect(),
            epoch: Instant::now(),
            timeout_ms: AtomicU64::new(30_000),
            stop: Arc::new(AtomicBool::new(false)),
            restarts: AtomicU64::new(0),
        });
        let p2 = Arc::downgrade(&pool);
        std::thread::spawn(move || loop {
            std::thread::sleep(Duration::from_millis(250));
            let p = match p2.upgrade() {
                Some(p) => p,
                None => break,
            };
            if p.stop.load(Ordering::Relaxed) {
                break;
            }
            let now = p.epoch.elapsed().as_millis() as u64;
            let to = p.timeout_ms.load(Ordering::Relaxed);
            for s in &p.slots {
                let st = s.started_ms.load(Ordering::Relaxed);
                if st != 0 && now > st + to {
                    let pid = s.pid.load(Ordering::Relaxed);
                    // a worker that has had little CPU time since the case started is being starved by other load
                    // on the machine, not stuck: it gets up to eight times the wall-clock budget before it is killed
                    let cpu_used = if pid != 0 { proc_cpu_ms(pid).saturating_sub(s.cpu_at_start.load(Ordering::Relaxed)) } else { 0 };
                    if cpu_used < to * 3 / 4 && now <= st + to * 8 {
                        continue;
                    }
                    if pid != 0 && !s.killed.swap(true, Ordering::Relaxed) {
                        s.cpu_at_kill.store(proc_cpu_ms(pid), Ordering::Relaxed);
                        unsafe {
                            libc::kill(pid as i32, libc::SIGKILL);
                        }
                    }
                }
            }
        });
        pool
    }

    pub fn set_timeout(&self, ms: u64) {
        self.timeout_ms.store(ms, Ordering::Relaxed);
    }

    pub fn lanes(&self) -> usize {
        self.slots.len()
    }

    pub fn run(&self, lane: usize, data: &[u8], flags: u32, seed: u64) -> Verdict {
        let slot = &self.slots[lane % self.slots.len()];
        let mut guard = slot.h.lock().unwrap();
        if guard.is_none() {
            *guard = Some(spawn_worker(&self.exe));
        }
        let h = guard.as_mut().unwrap();
        slot.pid.store(h.child.id() as u64, Ordering::Relaxed);
        slot.killed.store(false, Ordering::Relaxed);
        slot.cpu_at_start.store(proc_cpu_ms(h.child.id() as u64), Ordering::Relaxed);
        let mut hdr = Vec::with_capacity(16 + data.len());
        hdr.extend_from_slice(&flags.to_le_bytes());
        hdr.extend_from_slice(&(data.len() as u32).to_le_bytes());
        hdr.extend_from_slice(&seed.to_le_bytes());
        hdr.extend_from_slice(data);
        slot.started_ms.store(self.epoch.elapsed().as_millis() as u64 + 1, Ordering::Relaxed);
        let wrote = h.stdin.write_all(&hdr).and_then(|_| h.stdin.flush());
        let mut loaded: Option<(u64, Mem)> = None;
        let verdict = loop {
            if wrote.is_err() {
                break None;
            }
            let mut line = String::new();
            match h.stdout.read_line(&mut line) {
                Ok(0) | Err(_) => break None,
                Ok(_) => {}
            }
            let v: Value = match serde_json::from_str(&line) {
                Ok(v) => v,
                Err(_) => continue,
            };
            let phase = v["phase"].as_str().unwrap_or("");
            let mem = |v: &Value| Mem {
                peak: v["mem"]["peak"].as_i64().unwrap_or(0),
                max_req: v["mem"]["max_req"].as_u64().unwrap_or(0),
                delivered: v["mem"]["delivered"].as_u64().unwrap_or(0),
                worst_excess: v["mem"]["worst_excess"].as_i64().unwrap_or(0),
                worst_delivered: v["mem"]["worst_delivered"].as_u64().unwrap_or(0),
            };
            match phase {
                "loaded" => {
                    loaded = Some((v["consumed"].as_u64().unwrap_or(0), mem(&v)));
                }
                "denied" => {
                    break Some(Verdict::Denied { live: v["live"].as_u64().unwrap_or(0), req: v["req"].as_u64().unwrap_or(0), delivered: v["delivered"].as_u64().unwrap_or(0), bound: v["bound"].as_u64().unwrap_or(0) });
                }
                "done" => {
                    let s = |k: &str| v[k].as_str().unwrap_or("").to_string();
                    let load = match v["load"].as_str().unwrap_or("") {
                        "ok" => LoadV::Ok,
                        "err" => LoadV::Err(s("kind")),
                        _ => LoadV::Panic { loc: s("loc"), msg: s("msg") },
                    };
                    let usev = match v["use"].as_str().unwrap_or("") {
                        "ok" => UseV::Ok { calls: v["calls"].as_u64().unwrap_or(0), images: v["images"].as_u64().unwrap_or(0), skipped_heavy: v["skipped_heavy"].as_u64().unwrap_or(0), special: v["special"].as_bool().unwrap_or(false) },
                        "panic" => UseV::Panic { loc: s("loc"), msg: s("msg") },
                        "dims" => UseV::Dims(s("msg")),
                        _ => UseV::NotRun,
                    };
                    break Some(Verdict::Done { load, usev, consumed: v["consumed"].as_u64().unwrap_or(0), mem: mem(&v) });
                }
                _ => {}
            }
        };
        slot.started_ms.store(0, Ordering::Relaxed);
        let is_denied = matches!(verdict, Some(Verdict::Denied { .. }));
        let verdict = match verdict {
            Some(v) if !is_denied => return v,
            other => other,
        };
        // the worker is gone (denied -> exited, or died): collect status, restart lazily
        let mut hd = guard.take().unwrap();
        drop(hd.stdin);
        let status = hd.child.wait().ok();
        remove_scratch(hd.child.id());
        self.restarts.fetch_add(1, Ordering::Relaxed);
        if let Some(v) = verdict {
            return v;
        }
        if slot.killed.load(Ordering::Relaxed) {
            let cpu_ms = slot.cpu_at_kill.load(Ordering::Relaxed).saturating_sub(slot.cpu_at_start.load(Ordering::Relaxed));
            return Verdict::Timeout { cpu_ms, loaded: loaded.is_some() };
        }
        std::thread::sleep(Duration::from_millis(20));
        let tail = hd.stderr_tail.lock().unwrap().clone();
        use std::os::unix::process::ExitStatusExt;
        let sig = status.and_then(|s| s.signal());
        let what = if let Some(i) = tail.find("panicked at src/") {
            // a panic outside the guarded library calls, at a path relative to the harness crate: a harness fault
            format!("harness-panic:harness/{}", tail[i + 12..].lines().next().unwrap_or("").trim_end_matches(':'))
        } else if tail.contains("overflowed its stack") {
            "stack-overflow".to_string()
        } else if tail.contains("memory allocation of") {
            "alloc-failure-abort".to_string()
        } else {
            format!("signal-{:?}-{}", sig, tail.lines().last().unwrap_or("").chars().take(80).collect::<String>())
        };
        match loaded {
            Some((consumed, mem)) => Verdict::Done { load: LoadV::Ok, usev: UseV::Died { what }, consumed, mem },
            None => Verdict::Died { what },
        }
    }
}

impl Drop for Pool {
    fn drop(&mut self) {
        self.stop.store(true, Ordering::Relaxed);
        for s in &self.slots {
            if let Some(mut h) = s.h.lock().unwrap().take() {
                let _ = h.child.kill();
                let _ = h.child.wait();
                remove_scratch(h.child.id());
            }
        }
    }
}

/// A worker that exits or is killed in the middle of a path-based load leaves its scratch file behind.
fn remove_scratch(pid: u32) {
    use std::os::unix::ffi::OsStringExt;
    let mut p = std::env::temp_dir().into_os_string().into_vec();
    p.extend_from_slice(b"/worker-\xff\xfe-");
    p.extend_from_slice(pid.to_string().as_bytes());
    p.extend_from_slice(b".ase");
    let _ = std::fs::remove_file(std::path::PathBuf::from(std::ffi::OsString::from_vec(p)));
    let _ = std::fs::remove_file(std::env::temp_dir().join(format!("worker-{}.ase", pid)));
}
