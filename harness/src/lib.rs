//! Verification harness for alpine-alpaca/asefile (property-based testing and fuzzing).
#![allow(dead_code, unused_imports)]
pub mod alloc;
pub mod encode;
pub mod exercise;
pub mod fuzzstage;
pub mod gen;
pub mod logger;
pub mod model;
pub mod observe;
pub mod props;
pub mod refimpl;
pub mod runner;
pub mod scan;
pub mod worker;
