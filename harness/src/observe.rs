//! Whole-API canonical observation of a loaded sprite.
use asefile::*;
use std::result::Result;

pub type Ud = Option<(Option<String>, Option<[u8; 4]>)>;

pub fn ud(u: Option<&UserData>) -> Ud {
    u.map(|u| (u.text.clone(), u.color.map(|c| c.0)))
}

/// Canonical image: dimensions + RGBA bytes with RGB zeroed where alpha is 0
/// (the repository's own image equivalence).
#[derive(Clone, PartialEq, Eq, Hash)]
pub struct Img {
    pub w: u32,
    pub h: u32,
    pub px: Vec<u8>,
}

impl std::fmt::Debug for Img {
    fn fmt(&self, f: &mut std::fmt::Formatter<'_>) -> std::fmt::Result {
        write!(f, "Img {}x{} #{:016x}", self.w, self.h, crate::runner::hash_bytes(&self.px))
    }
}

pub fn canon(img: &image::RgbaImage) -> Img {
    let mut px = img.as_raw().clone();
    for p in px.chunks_exact_mut(4) {
        if p[3] == 0 {
            p[0] = 0;
            p[1] = 0;
            p[2] = 0;
        }
    }
    Img { w: img.width(), h: img.height(), px }
}

pub fn exact(img: &image::RgbaImage) -> Img {
    Img { w: img.width(), h: img.height(), px: img.as_raw().clone() }
}

impl Img {
    pub fn get(&self, x: u32, y: u32) -> [u8; 4] {
        let i = ((y * self.w + x) * 4) as usize;
        [self.px[i], self.px[i + 1], self.px[i + 2], self.px[i + 3]]
    }
    pub fn first_diff(&self, o: &Img) -> Option<(u32, u32, [u8; 4], [u8; 4])> {
        if self.w != o.w || self.h != o.h {
            return Some((u32::MAX, u32::MAX, [0; 4], [0; 4]));
        }
        for y in 0..self.h {
            for x in 0..self.w {
                if self.get(x, y) != o.get(x, y) {
                    return Some((x, y, self.get(x, y), o.get(x, y)));
                }
            }
        }
        None
    }
}

#[derive(Clone, Debug, PartialEq)]
pub struct LayerObs {
    pub id: u32,
    pub name: String,
    pub flags: u32,
    pub blend: u16,
    pub opacity: u8,
    /// 0 image, 1 group, 2 tilemap
    pub ltype: u8,
    pub tileset: Option<u32>,
    pub is_tilemap: bool,
    pub parent: Option<u32>,
    pub visible: bool,
    pub user_data: Ud,
}

#[derive(Clone, Debug, PartialEq)]
pub struct CelObs {
    pub frame: u32,
    pub layer: u32,
    pub empty: bool,
    pub top_left: (i32, i32),
    pub is_tilemap: bool,
    pub user_data: Ud,
    pub image: Option<Img>,
}

#[derive(Clone, Debug, PartialEq)]
pub struct TagObs {
    pub name: String,
    pub from: u32,
    pub to: u32,
    pub dir: u8,
    pub repeat: Option<u32>,
    pub user_data: Ud,
}

#[derive(Clone, Debug, PartialEq)]
pub struct KeyObs {
    pub frame: u32,
    pub origin: (i32, i32),
    pub size: (u32, u32),
    pub slice9: Option<(i32, i32, u32, u32)>,
    pub pivot: Option<(i32, i32)>,
}

#[derive(Clone, Debug, PartialEq)]
pub struct SliceObs {
    pub name: String,
    pub keys: Vec<KeyObs>,
    pub user_data: Ud,
}

#[derive(Clone, Debug, PartialEq)]
pub struct TilesetObs {
    pub id: u32,
    pub empty_zero: bool,
    pub count: u32,
    pub tile_size: (u16, u16),
    pub base_index: i16,
    pub name: String,
    pub ext: Option<(u32, u32)>,
    pub image: Option<Img>,
}

#[derive(Clone, Debug, PartialEq)]
pub struct TilemapObs {
    pub layer: u32,
    pub frame: u32,
    pub size: (u32, u32),
    pub tile_size: (u32, u32),
    pub tileset: u32,
    pub tile_offsets: (i32, i32),
    pub pixel_offsets: (i32, i32),
    pub grid: Vec<u32>,
    pub image: Option<Img>,
}

#[derive(Clone, Debug, PartialEq)]
pub struct Obs {
    pub width: usize,
    pub height: usize,
    pub size: (usize, usize),
    pub num_frames: u32,
    pub num_layers: u32,
    /// 0 rgba, 1 gray, 2 indexed
    pub fmt: u8,
    pub bpp: usize,
    pub transparent: Option<u8>,
    pub transparent2: Option<u8>,
    pub indexed: bool,
    pub layers: Vec<LayerObs>,
    pub durations: Vec<u32>,
    pub frame_images: Vec<Option<Img>>,
    pub cels: Vec<CelObs>,
    pub tags: Vec<TagObs>,
    pub slices: Vec<SliceObs>,
    pub palette: Option<Vec<(u32, [u8; 4], Option<String>)>>,
    pub palette_count: Option<u32>,
    pub ext_files: Vec<(u32, String)>,
    pub tilesets: Vec<TilesetObs>,
    pub tilemaps: Vec<TilemapObs>,
    pub sprite_user_data: Ud,
}

pub fn blend_id(b: BlendMode) -> u16 {
    use BlendMode::*;
    match b {
        Normal => 0,
        Multiply => 1,
        Screen => 2,
        Overlay => 3,
        Darken => 4,
        Lighten => 5,
        ColorDodge => 6,
        ColorBurn => 7,
        HardLight => 8,
        SoftLight => 9,
        Difference => 10,
        Exclusion => 11,
        Hue => 12,
        Saturation => 13,
        Color => 14,
        Luminosity => 15,
        Addition => 16,
        Subtract => 17,
        Divide => 18,
    }
}

pub fn layer_obs(l: &Layer) -> LayerObs {
    let (ltype, tileset) = match l.layer_type() {
        LayerType::Image => (0, None),
        LayerType::Group => (1, None),
        LayerType::Tilemap(t) => (2, Some(t)),
    };
    LayerObs {
        id: l.id(),
        name: l.name().to_string(),
        flags: l.flags().bits(),
        blend: blend_id(l.blend_mode()),
        opacity: l.opacity(),
        ltype,
        tileset,
        is_tilemap: l.is_tilemap(),
        parent: l.parent().map(|p| p.id()),
        visible: l.is_visible(),
        user_data: ud(l.user_data()),
    }
}

pub fn cel_obs(c: &Cel, images: bool) -> CelObs {
    CelObs {
        frame: c.frame(),
        layer: c.layer(),
        empty: c.is_empty(),
        top_left: c.top_left(),
        is_tilemap: c.is_tilemap(),
        user_data: ud(c.user_data()),
        image: if images { Some(canon(&c.image())) } else { None },
    }
}

pub fn tag_obs(t: &Tag) -> TagObs {
    TagObs {
        name: t.name().to_string(),
        from: t.from_frame(),
        to: t.to_frame(),
        dir: match t.animation_direction() {
            AnimationDirection::Forward => 0,
            AnimationDirection::Reverse => 1,
            AnimationDirection::PingPong => 2,
        },
        repeat: t.repeat().map(|r| r.get()),
        user_data: ud(t.user_data()),
    }
}

pub fn slice_obs(s: &Slice) -> SliceObs {
    SliceObs {
        name: s.name.clone(),
        keys: s
            .keys
            .iter()
            .map(|k| KeyObs {
                frame: k.from_frame,
                origin: k.origin,
                size: k.size,
                slice9: k.slice9.as_ref().map(|s| (s.center_x, s.center_y, s.center_width, s.center_height)),
                pivot: k.pivot,
            })
            .collect(),
        user_data: ud(s.user_data.as_ref()),
    }
}

pub fn tileset_obs(t: &Tileset, images: bool) -> TilesetObs {
    TilesetObs {
        id: t.id(),
        empty_zero: t.empty_tile_is_id_zero(),
        count: t.tile_count(),
        tile_size: (t.tile_size().width(), t.tile_size().height()),
        base_index: t.base_index(),
        name: t.name().to_string(),
        ext: t.external_file().map(|e| (e.external_file_id().value(), e.tileset_id())),
        image: if images { Some(canon(&t.image())) } else { None },
    }
}

pub fn tilemap_obs(f: &AsepriteFile, layer: u32, frame: u32, images: bool) -> Option<TilemapObs> {
    let tm = f.tilemap(layer, frame)?;
    let (w, h) = (tm.width(), tm.height());
    let mut grid = Vec::new();
    if (w as u64) * (h as u64) <= 1 << 16 {
        for y in 0..h {
            for x in 0..w {
                grid.push(tm.tile(x, y).id());
            }
        }
    }
    Some(TilemapObs {
        layer,
        frame,
        size: (w, h),
        tile_size: tm.tile_size(),
        tileset: tm.tileset().id(),
        tile_offsets: tm.tile_offsets(),
        pixel_offsets: tm.pixel_offsets(),
        grid,
        image: if images { Some(canon(&tm.image())) } else { None },
    })
}

/// Limits: images are rendered only when the canvas has at most 2^20 pixels and at most
/// `max_cels` (frame, layer) pairs are visited.
pub fn observe(f: &AsepriteFile, images: bool) -> Obs {
    let images = images && (f.width() as u64 * f.height() as u64) <= (1 << 20);
    let nf = f.num_frames();
    let nl = f.num_layers();
    let fmt = match f.pixel_format() {
        PixelFormat::Rgba => 0,
        PixelFormat::Grayscale => 1,
        PixelFormat::Indexed { .. } => 2,
    };
    let mut cels = Vec::new();
    let mut tilemaps = Vec::new();
    let budget = 4096u64;
    if (nf as u64) * (nl as u64) <= budget {
        for fr in 0..nf {
            for l in 0..nl {
                let c = f.cel(fr, l);
                cels.push(cel_obs(&c, images));
                if let Some(t) = tilemap_obs(f, l, fr, images) {
                    tilemaps.push(t);
                }
            }
        }
    }
    let mut tilesets: Vec<TilesetObs> = f
        .tilesets()
        .iter()
        .map(|t| {
            let heavy = t.tile_count() as u64 * t.tile_size().width() as u64 * t.tile_size().height() as u64 > (1 << 22);
            tileset_obs(t, images && !heavy)
        })
        .collect();
    tilesets.sort_by_key(|t| t.id);
    let mut ext: Vec<(u32, String)> = f.external_files().map().iter().map(|(k, v)| (k.value(), v.name().to_string())).collect();
    ext.sort();
    let palette = f.palette().map(|p| {
        // find entries by probing ids: entries are reported through color(id); iterate a candidate set
        let mut v: Vec<(u32, [u8; 4], Option<String>)> = Vec::new();
        for id in palette_ids(p) {
            if let Some(e) = p.color(id) {
                v.push((e.id(), e.raw_rgba8(), e.name().map(|s| s.to_string())));
            }
        }
        v
    });
    Obs {
        width: f.width(),
        height: f.height(),
        size: f.size(),
        num_frames: nf,
        num_layers: nl,
        fmt,
        bpp: f.pixel_format().bytes_per_pixel(),
        transparent: f.transparent_color_index(),
        transparent2: f.pixel_format().transparent_color_index(),
        indexed: f.is_indexed_color(),
        layers: f.layers().map(|l| layer_obs(&l)).collect(),
        durations: (0..nf.min(70000)).map(|i| f.frame(i).duration()).collect(),
        frame_images: (0..nf).map(|i| if images && i < 64 { Some(canon(&f.frame(i).image())) } else { None }).collect(),
        cels,
        tags: (0..f.num_tags()).map(|i| tag_obs(f.tag(i))).collect(),
        slices: f.slices().iter().map(slice_obs).collect(),
        palette_count: f.palette().map(|p| p.num_colors()),
        palette,
        ext_files: ext,
        tilesets,
        tilemaps,
        sprite_user_data: ud(f.sprite_user_data()),
    }
}

/// The palette has no public iterator; its Debug output lists the entries, from which the ids
/// are recovered (falls back to probing 0..4096).
pub fn palette_ids(p: &ColorPalette) -> Vec<u32> {
    let dbg = format!("{:?}", p);
    let mut ids = Vec::new();
    let mut rest = dbg.as_str();
    while let Some(i) = rest.find("ColorPaletteEntry { id: ") {
        rest = &rest[i + "ColorPaletteEntry { id: ".len()..];
        let end = rest.find(|c: char| !c.is_ascii_digit()).unwrap_or(rest.len());
        if let Ok(v) = rest[..end].parse::<u32>() {
            ids.push(v);
        }
    }
    if ids.len() as u32 != p.num_colors() {
        ids = (0..4096).filter(|i| p.color(*i).is_some()).collect();
    }
    ids.sort();
    ids.dedup();
    ids
}
