//! Coverage-guided search over generator tapes (thorough tiers of the tape-driven properties): the cargo-fuzz
//! target `tape_props` decodes its input as a tape, builds the case the property's generator would build from it
//! and runs the property's own oracle; a failure is a crash artifact. Every artifact is re-judged here by the
//! deterministic check (same code path as `--replay`), shrunk, and only then reported.
use crate::runner::*;
use serde_json::json;

/// Entry used by the fuzz target: run property `id` on the tape; panic (= libFuzzer crash) on a failure.
pub fn fuzz_tape(id: &str, tape: &[u32]) {
    static INIT: std::sync::Once = std::sync::Once::new();
    INIT.call_once(|| {
        install_panic_hook();
        crate::logger::install();
    });
    if let Some(Err(f)) = crate::props::replay(id, &json!({ "tape": tape })) {
        if f.signature == "bad-replay" {
            return;
        }
        panic!("TAPE-FAILURE {} [{}] {}", id, f.signature, f.msg.chars().take(200).collect::<String>());
    }
}

fn judge(id: &str, tape: &[u32]) -> CheckResult {
    crate::props::replay(id, &json!({ "tape": tape })).unwrap_or_else(|| Err(Failure::new("bad-replay", "unknown property")))
}

/// Greedy tape shrinking (truncate, zero blocks, zero/halve words) keeping the failure signature.
pub fn shrink_tape(id: &str, tape: &[u32], sig: &str) -> Vec<u32> {
    let started = std::time::Instant::now();
    let mut evals = 0u32;
    let mut cur = tape.to_vec();
    let mut still = |t: &[u32], evals: &mut u32| -> bool {
        *evals += 1;
        matches!(judge(id, t), Err(f) if f.signature == sig)
    };
    let budget = |evals: u32| evals < 3000 && started.elapsed().as_secs() < 90;
    // truncate
    let mut n = cur.len() / 2;
    while n > 0 && budget(evals) {
        if cur.len() > n && still(&cur[..cur.len() - n], &mut evals) {
            cur.truncate(cur.len() - n);
        } else {
            n /= 2;
        }
    }
    // zero blocks, then single words, then halve values
    let mut block = (cur.len() / 2).max(1);
    while block >= 1 && budget(evals) {
        let mut i = 0;
        while i < cur.len() && budget(evals) {
            let end = (i + block).min(cur.len());
            if cur[i..end].iter().any(|w| *w != 0) {
                let mut t = cur.clone();
                for w in &mut t[i..end] {
                    *w = 0;
                }
                if still(&t, &mut evals) {
                    cur = t;
                }
            }
            i = end;
        }
        if block == 1 {
            break;
        }
        block /= 2;
    }
    for i in 0..cur.len() {
        while cur[i] != 0 && budget(evals) {
            let mut t = cur.clone();
            t[i] /= 2;
            if still(&t, &mut evals) {
                cur = t;
            } else {
                break;
            }
        }
    }
    cur
}

/// The libFuzzer stage for a tape-driven property. Skipped (and said so in the evidence) for path-override runs,
/// under VERIF_NO_FUZZ, and when cargo-fuzz cannot build.
pub fn fuzz_tapes(run: &mut Run, tape_words: usize, secs: u64) {
    if !run.thorough() {
        return;
    }
    if std::env::var("VERIF_REPO").is_ok() || std::env::var("VERIF_NO_FUZZ").is_ok() {
        run.extra.insert("libfuzzer_tapes".into(), json!("skipped (path-override or VERIF_NO_FUZZ run)"));
        return;
    }
    let id = run.prop;
    let hdir = format!("{}/harness", verif_dir());
    let work = format!("{}/fuzz-work-{}-{}", target_dir(), id, std::process::id());
    let _ = std::fs::remove_dir_all(&work);
    let sh = |cmd: &str| -> (i32, String) {
        match std::process::Command::new("bash").arg("-c").arg(cmd).current_dir(&hdir).env("CARGO_NET_OFFLINE", "true").env("VFUZZ_PROP", id).output() {
            Ok(o) => (o.status.code().unwrap_or(-1), format!("{}{}", String::from_utf8_lossy(&o.stdout), String::from_utf8_lossy(&o.stderr))),
            Err(e) => (-1, e.to_string()),
        }
    };
    let (rc, out) = sh("cargo +nightly fuzz build -s none tape_props 2>&1 | tail -5; exit ${PIPESTATUS[0]}");
    if rc != 0 {
        run.extra.insert("libfuzzer_tapes".into(), json!(format!("skipped: cargo fuzz build failed: {}", out.chars().rev().take(300).collect::<String>().chars().rev().collect::<String>())));
        return;
    }
    let (corpus, arts, logs) = (format!("{}/corpus", work), format!("{}/artifacts", work), format!("{}/logs", work));
    for d in [&corpus, &arts, &logs] {
        let _ = std::fs::create_dir_all(d);
    }
    // seed corpus: tapes as the random tiers draw them, of several lengths, plus the all-zero tape (simplest case)
    let mut n = 0;
    for i in 0..300u64 {
        let mut r = crate::encode::Rng(lane_seed(run.seed, "fuzz-tapes", i));
        let len = [8usize, 40, 150, tape_words / 2, tape_words][(i % 5) as usize];
        let tape: Vec<u32> = (0..len).map(|_| if i % 7 == 0 { 0 } else { r.next() as u32 }).collect();
        let bytes: Vec<u8> = tape.iter().flat_map(|w| w.to_le_bytes()).collect();
        let _ = std::fs::write(format!("{}/tape-{}", corpus, i), bytes);
        n += 1;
    }
    let cmd = format!(
        "cargo +nightly fuzz run -s none tape_props {corpus} -- -runs=100000000 -seed={seed} -max_len={maxlen} -len_control=0 -rss_limit_mb=6000 -malloc_limit_mb=3000 -timeout=120 -max_total_time={secs} -artifact_prefix={arts}/ -jobs=8 -workers=8 -print_final_stats=1 > {logs}/driver.log 2>&1; mv {hdir}/fuzz-*.log {logs}/ 2>/dev/null; true",
        corpus = corpus, seed = (run.seed % 1_000_000) + 11, maxlen = tape_words * 4, secs = secs, arts = arts, logs = logs, hdir = hdir
    );
    let _ = sh(&cmd);
    let mut execs = 0u64;
    let mut cov = 0u64;
    if let Ok(rd) = std::fs::read_dir(&logs) {
        for e in rd.filter_map(|e| e.ok()) {
            if let Ok(t) = std::fs::read_to_string(e.path()) {
                for l in t.lines() {
                    if let Some(x) = l.strip_prefix("stat::number_of_executed_units:") {
                        execs += x.trim().parse::<u64>().unwrap_or(0);
                    }
                    if let Some(p) = l.find(" cov: ") {
                        if let Some(v) = l[p + 6..].split_whitespace().next().and_then(|v| v.parse::<u64>().ok()) {
                            cov = cov.max(v);
                        }
                    }
                }
            }
        }
    }
    let (mut confirmed, mut unconfirmed, mut other) = (0u64, 0u64, 0u64);
    if let Ok(rd) = std::fs::read_dir(&arts) {
        let mut ps: Vec<_> = rd.filter_map(|e| e.ok()).map(|e| e.path()).collect();
        ps.sort();
        for p in ps.into_iter().take(40) {
            let name = p.file_name().unwrap().to_string_lossy().to_string();
            if !name.starts_with("crash-") {
                // timeouts / out-of-memory reports of libFuzzer itself: not decided here
                other += 1;
                continue;
            }
            let raw = match std::fs::read(&p) {
                Ok(b) => b,
                Err(_) => continue,
            };
            let tape: Vec<u32> = raw
                .chunks(4)
                .map(|c| {
                    let mut w = [0u8; 4];
                    w[..c.len()].copy_from_slice(c);
                    u32::from_le_bytes(w)
                })
                .collect();
            match judge(id, &tape) {
                Ok(_) => unconfirmed += 1,
                Err(f) => {
                    confirmed += 1;
                    let small = shrink_tape(id, &tape, &f.signature);
                    let f2 = match judge(id, &small) {
                        Err(f2) if f2.signature == f.signature => f2,
                        _ => f,
                    };
                    run.direct(|| json!({"tape": small, "found_by": format!("libfuzzer:tape_props:{}", name)}), Err(f2));
                }
            }
        }
    }
    run.extra.insert("libfuzzer_tapes".into(), json!({"target": "tape_props", "seed_corpus": n, "executed_units": execs, "max_coverage_counter": cov, "seconds": secs, "artifacts_confirmed": confirmed, "artifacts_unconfirmed": unconfirmed, "artifacts_timeout_or_oom_not_judged": other}));
    run.stats.counters.entry("libfuzzer_executed_units".into()).and_modify(|x| *x += execs).or_insert(execs);
    let _ = std::fs::remove_dir_all(&work);
}
