//! A `log` backend that formats every record (so that arguments of log statements are really evaluated) into a
//! fixed-size stack buffer: no heap allocation, no output. Installed in every vcheck process unless
//! VERIF_LOGGER=off; the C16 differential runs the same corpus with and without it.
use std::fmt::Write;
use std::sync::atomic::{AtomicU64, Ordering};

pub static RECORDS: AtomicU64 = AtomicU64::new(0);
pub static BYTES: AtomicU64 = AtomicU64::new(0);

struct Sink {
    buf: [u8; 256],
    len: usize,
    total: u64,
}

impl Write for Sink {
    fn write_str(&mut self, s: &str) -> std::fmt::Result {
        let b = s.as_bytes();
        let n = b.len().min(self.buf.len() - self.len);
        self.buf[self.len..self.len + n].copy_from_slice(&b[..n]);
        self.len += n;
        self.total += b.len() as u64;
        Ok(())
    }
}

struct Formatting;

impl log::Log for Formatting {
    fn enabled(&self, _: &log::Metadata) -> bool {
        true
    }
    fn log(&self, record: &log::Record) {
        let mut s = Sink { buf: [0; 256], len: 0, total: 0 };
        let _ = write!(s, "{}", record.args());
        RECORDS.fetch_add(1, Ordering::Relaxed);
        BYTES.fetch_add(s.total, Ordering::Relaxed);
    }
    fn flush(&self) {}
}

static LOGGER: Formatting = Formatting;

pub fn enabled_by_env() -> bool {
    std::env::var("VERIF_LOGGER").map(|v| v != "off").unwrap_or(true)
}

pub fn install() {
    if enabled_by_env() && log::set_logger(&LOGGER).is_ok() {
        log::set_max_level(log::LevelFilter::Trace);
    }
}
