//! Generators. All randomness comes from a proptest-generated "tape" (Vec<u32>); sprites, plans
//! and mutations are built deterministically from it by construction (no rejection).
//! Reading past the end of the tape yields 0, and 0 always selects the simplest alternative,
//! so proptest's shrinking of the tape shrinks the built case.
use crate::encode::{Plan, Rng};
use crate::model::*;

pub struct Tape<'a> {
    data: &'a [u32],
    pos: usize,
}

impl<'a> Tape<'a> {
    pub fn new(data: &'a [u32]) -> Tape<'a> {
        Tape { data, pos: 0 }
    }
    pub fn raw(&mut self) -> u32 {
        let v = self.data.get(self.pos).copied().unwrap_or(0);
        self.pos += 1;
        v
    }
    pub fn raw64(&mut self) -> u64 {
        ((self.raw() as u64) << 32) | self.raw() as u64
    }
    /// monotone map of a raw value into 0..n
    pub fn below(&mut self, n: u32) -> u32 {
        if n == 0 {
            self.raw();
            return 0;
        }
        ((self.raw() as u64 * n as u64) >> 32) as u32
    }
    pub fn range(&mut self, lo: i64, hi: i64) -> i64 {
        debug_assert!(hi >= lo);
        let span = (hi - lo + 1) as u64;
        if span > u32::MAX as u64 {
            lo + (self.raw64() % span) as i64
        } else {
            lo + self.below(span as u32) as i64
        }
    }
    /// true with probability num/den; a zero tape value gives false
    pub fn chance(&mut self, num: u32, den: u32) -> bool {
        self.below(den) >= den - num.min(den)
    }
    pub fn pick<T: Clone>(&mut self, xs: &[T]) -> T {
        xs[self.below(xs.len() as u32) as usize].clone()
    }
    pub fn u8_biased(&mut self) -> u8 {
        match self.below(6) {
            0 => 255,
            1 => 0,
            2 => self.pick(&[1u8, 2, 127, 128, 129, 254]),
            _ => self.raw() as u8,
        }
    }
    pub fn u16_biased(&mut self) -> u16 {
        match self.below(6) {
            0 => self.below(8) as u16,
            1 => self.pick(&[0u16, 1, 0x7FFF, 0x8000, 0xFFFE, 0xFFFF, 255, 256]),
            2 => self.below(300) as u16,
            _ => self.raw() as u16,
        }
    }
    pub fn i16_biased(&mut self) -> i16 {
        self.u16_biased() as i16
    }
    pub fn u32_biased(&mut self) -> u32 {
        match self.below(6) {
            0 => self.below(8),
            1 => self.pick(&[0u32, 1, 0x7FFF_FFFF, 0x8000_0000, 0xFFFF_FFFE, 0xFFFF_FFFF, 0xFFFF, 0x1_0000]),
            2 => self.below(70000),
            _ => self.raw(),
        }
    }
    pub fn i32_biased(&mut self) -> i32 {
        match self.below(6) {
            0 => self.below(8) as i32,
            1 => -(self.below(300) as i32),
            2 => self.pick(&[i32::MIN, i32::MAX, -1, 0, i32::MIN + 1, 0x7FFF, -0x8000]),
            _ => self.raw() as i32,
        }
    }
    pub fn string(&mut self) -> String {
        const POOL: [&str; 12] = ["", "a", "Layer 1", "bg", "ü", "日本語", "😀 smile", "tag", "x y", "Ünïcödé-名前", "A", "dup"];
        match self.below(8) {
            0..=4 => self.pick(&POOL).to_string(),
            5 => {
                let n = self.below(12) as usize;
                (0..n).map(|_| (b'a' + self.below(26) as u8) as char).collect()
            }
            6 => {
                let n = self.below(6) as usize;
                (0..n).map(|_| char::from_u32(self.pick(&[0x41u32, 0xE9, 0x4E2D, 0x1F600, 0x7F, 0x20, 0x10FFFF, 0x800, 0x7FF])).unwrap()).collect()
            }
            7 if self.chance(1, 2) => {
                // long strings of multi-byte characters at every alignment (boundaries at 64, 256, 512 ... bytes)
                let lead = self.below(4) as usize;
                let unit = self.pick(&["é", "名", "😀", "aé", "名b😀"]);
                let target = self.pick(&[60usize, 66, 130, 250, 258, 300, 515, 1030]);
                let mut s = "x".repeat(lead);
                while s.len() < target {
                    s.push_str(unit);
                }
                s
            }
            _ => {
                // long names (up to the 65535-byte limit, rarely)
                let n = match self.below(4) {
                    0 => 65535,
                    1 => 256,
                    _ => 20 + self.below(500) as usize,
                };
                "n".repeat(n)
            }
        }
    }
    pub fn short_string(&mut self) -> String {
        const POOL: [&str; 11] = ["", "a", "bg", "ü", "名", "dup", "L", "😀", "Überlange-Ebenen-Nämen mit Umlauten ÄÖÜß", "レイヤー名前テスト・長い名前・レイヤー", "0123456789012345678901😀😀 tail"];
        self.pick(&POOL).to_string()
    }
    pub fn user_data(&mut self) -> UserData {
        let fl = self.below(4);
        UserData {
            text: if fl & 1 != 0 { Some(self.short_or_long()) } else { None },
            color: if fl & 2 != 0 { Some([self.raw() as u8, self.raw() as u8, self.u8_biased(), self.u8_biased()]) } else { None },
        }
    }
    fn short_or_long(&mut self) -> String {
        if self.chance(1, 20) {
            self.string()
        } else {
            self.short_string()
        }
    }
    pub fn opt_user_data(&mut self, num: u32, den: u32) -> Option<UserData> {
        if self.chance(num, den) {
            Some(self.user_data())
        } else {
            None
        }
    }
}

#[derive(Clone, Debug)]
pub struct GenCfg {
    pub fmts: Vec<Fmt>,
    pub canvas_typ: u16,
    /// allow canvases up to 65535 (only for checks that never render)
    pub big_canvas: bool,
    pub max_layers: u32,
    pub max_frames: u32,
    pub max_cel: u16,
    pub groups: bool,
    pub tilemaps: bool,
    pub tile_aligned: bool,
    pub flip_bits: bool,
    pub links: bool,
    pub user_data: bool,
    pub tags: bool,
    pub slices: bool,
    pub ext_files: bool,
    pub extra_palette: bool,
    /// all blend modes (else Normal only)
    pub blend_modes: bool,
    pub long_names: bool,
    pub hidden: bool,
    /// extreme cel offsets
    pub extreme_offsets: bool,
    pub background: bool,
    pub max_tile: u16,
    pub cel_density: u32, // out of 8
    /// allow the occasional sprite that is an order of magnitude larger / wider / longer / deeper
    pub scale: bool,
}

impl GenCfg {
    pub fn full() -> GenCfg {
        GenCfg {
            fmts: vec![Fmt::Rgba, Fmt::Gray, Fmt::Indexed],
            canvas_typ: 24,
            big_canvas: false,
            max_layers: 6,
            max_frames: 4,
            max_cel: 20,
            groups: true,
            tilemaps: true,
            tile_aligned: true,
            flip_bits: false,
            links: true,
            user_data: true,
            tags: true,
            slices: true,
            ext_files: true,
            extra_palette: true,
            blend_modes: true,
            long_names: false,
            hidden: true,
            extreme_offsets: true,
            background: true,
            max_tile: 8,
            cel_density: 5,
            scale: true,
        }
    }
}

const STD_MASKS: [u32; 4] = [0x1fff_ffff, 0x2000_0000, 0x4000_0000, 0x8000_0000];

fn gen_pixels(t: &mut Tape, fmt: Fmt, n: usize, pal_ids: &[u8], transparent: u8) -> Vec<u8> {
    let mode = t.below(5);
    let seed = t.raw64();
    let mut r = Rng(seed);
    let mut out = Vec::with_capacity(n * fmt.bpp());
    let alpha = |r: &mut Rng, mode: u32| -> u8 {
        match mode {
            0 => 255,
            1 => [0u8, 255][(r.next() & 1) as usize],
            2 => [0u8, 1, 127, 128, 254, 255][(r.next() % 6) as usize],
            _ => r.next() as u8,
        }
    };
    for i in 0..n {
        match fmt {
            Fmt::Rgba => {
                let v = r.next();
                out.extend_from_slice(&[v as u8, (v >> 8) as u8, (v >> 16) as u8, alpha(&mut r, mode)]);
            }
            Fmt::Gray => {
                let v = r.next();
                out.extend_from_slice(&[v as u8, alpha(&mut r, mode)]);
            }
            Fmt::Indexed => {
                let idx = if pal_ids.is_empty() {
                    0
                } else if mode == 0 {
                    pal_ids[i % pal_ids.len()]
                } else if mode == 1 && pal_ids.contains(&transparent) && r.next() % 3 == 0 {
                    transparent
                } else {
                    pal_ids[(r.next() % pal_ids.len() as u64) as usize]
                };
                out.push(idx);
            }
        }
    }
    out
}

fn gen_new_palette(t: &mut Tape, must_cover_low: bool) -> NewPalette {
    let n = match t.below(6) {
        0 => 1 + t.below(4),
        1 => 256,
        2 => 1 + t.below(600),
        _ => 1 + t.below(40),
    } as usize;
    let first = if must_cover_low {
        match t.below(4) {
            0 | 1 => 0,
            _ => t.below(200),
        }
    } else {
        match t.below(5) {
            0 | 1 => 0,
            2 => t.below(300),
            3 => t.pick(&[255u32, 256, 0xFFFF, 0x7FFF_FFFF, 0x8000_0000]),
            _ => u32::MAX - n as u32 + 1 - t.below(3),
        }
    };
    let seed = t.raw64();
    let mut r = Rng(seed);
    let amode = t.below(3);
    let named = t.below(4);
    let mut entries = Vec::with_capacity(n);
    for i in 0..n {
        let v = r.next();
        let a = match amode {
            0 => 255,
            1 => [0u8, 128, 255][(r.next() % 3) as usize],
            _ => r.next() as u8,
        };
        let name = if named >= 2 && (r.next() % 4 == 0 || (i == 0 && named == 3)) {
            Some(["", "black", "ü", "色", "a long palette entry name"][(r.next() % 5) as usize].to_string())
        } else {
            None
        };
        entries.push(PalEntry { rgba: [v as u8, (v >> 8) as u8, (v >> 16) as u8, a], name });
    }
    // occasional duplicate colours
    if n > 2 && t.chance(1, 4) {
        let e = entries[0].clone();
        let k = 1 + t.below(n as u32 - 1) as usize;
        entries[k].rgba = e.rgba;
    }
    NewPalette { first, entries }
}

fn gen_legacy(t: &mut Tape) -> LegacyPalette {
    let kind = if t.chance(1, 2) { 0x0011 } else { 0x0004 };
    let np = 1 + t.below(6) as usize;
    let seed = t.raw64();
    let mut r = Rng(seed);
    let mut packets = Vec::new();
    for _ in 0..np {
        let skip = match t.below(4) {
            0 => 0,
            1 => t.below(4) as u8,
            2 => t.raw() as u8,
            _ => t.below(40) as u8,
        };
        let n = match t.below(5) {
            0 => 256,
            1 => 1,
            2 => 64,
            _ => 1 + t.below(48) as usize,
        };
        let mut colors = Vec::with_capacity(n);
        for k in 0..n {
            let v = r.next();
            let c = if kind == 0x0011 {
                // make sure every 6-bit value appears regularly
                [(k % 64) as u8, ((v >> 8) % 64) as u8, ((v >> 16) % 64) as u8]
            } else {
                [v as u8, (v >> 8) as u8, (v >> 16) as u8]
            };
            colors.push(c);
        }
        packets.push(LegacyPacket { skip, colors });
    }
    LegacyPalette { kind, packets }
}

fn gen_levels(t: &mut Tape, n: usize, groups: bool) -> Vec<u16> {
    let mut v = Vec::with_capacity(n);
    let mut prev = 0u16;
    for i in 0..n {
        let l = if i == 0 || !groups { 0 } else { t.below(prev as u32 + 2) as u16 };
        v.push(l);
        prev = l;
    }
    v
}

pub fn offset_for(t: &mut Tape, canvas: u16, size: u16, extreme: bool) -> i16 {
    let c = canvas as i32;
    let s = size as i32;
    let v: i32 = match t.below(12) {
        0 | 1 => 0,
        2 | 3 | 4 => t.range(0, (c - s).max(0) as i64) as i32, // inside
        5 | 6 => -(t.range(1, s.max(1) as i64) as i32),        // straddle low edge (or fully off when == s)
        7 | 8 => c - t.range(0, s as i64) as i32,              // straddle high edge
        9 => c + t.range(0, 5) as i32,                         // fully off beyond
        10 => -s - t.range(0, 5) as i32,                       // fully off before
        _ => {
            if extreme {
                if t.chance(1, 2) {
                    t.pick(&[i16::MIN as i32, i16::MAX as i32, -1, 1, i16::MIN as i32 + 1, i16::MAX as i32 - 1])
                } else {
                    t.raw() as i16 as i32
                }
            } else {
                0
            }
        }
    };
    v.clamp(i16::MIN as i32, i16::MAX as i32) as i16
}

pub fn build_sprite(t: &mut Tape, c: &GenCfg) -> Sprite {
    // about one sprite in fifty is an order of magnitude larger in every dimension (dozens of layers and
    // frames, canvases and cels of a hundred pixels, large tiles): most cases stay small and fast
    let scaled;
    let mut deep_nesting = false;
    let mut dup_stack = false;
    let c = if c.scale && t.chance(1, 40) {
        let mut big = c.clone();
        match t.below(5) {
            0 | 1 => {
                big.max_layers = (c.max_layers * 4).min(28);
                big.max_frames = (c.max_frames * 5).min(24);
                big.canvas_typ = (c.canvas_typ * 6).min(140);
                big.max_cel = (c.max_cel * 6).min(100);
                big.max_tile = (c.max_tile * 5).min(40);
            }
            2 => {
                // many layers that all carry (tiny) cels
                big.max_layers = if t.chance(1, 3) { 300 } else { 140 };
                // half of these are stacks of one duplicated cel (what duplicating a layer many times produces)
                dup_stack = t.chance(1, 2);
                big.max_frames = 2;
                big.max_cel = 2;
                big.cel_density = 7;
            }
            3 => {
                // many frames
                big.max_frames = 300;
                big.max_layers = 2;
                big.max_cel = 3;
                big.cel_density = 7;
            }
            _ => {
                // groups nested 10..40 deep
                big.max_layers = 45;
                big.max_frames = 2;
                big.max_cel = 3;
                deep_nesting = true;
            }
        }
        scaled = big;
        &scaled
    } else {
        c
    };
    let fmt = t.pick(&c.fmts);
    let dim = |t: &mut Tape| -> u16 {
        if c.big_canvas && t.chance(1, 6) {
            t.u16_biased().max(1)
        } else {
            1 + t.below(c.canvas_typ as u32) as u16
        }
    };
    let mut width = dim(t);
    let mut height = dim(t);
    // occasionally one axis just around the 8-bit boundary (coordinates >= 256), the other kept small
    if !c.big_canvas && t.chance(1, 14) {
        let v = t.pick(&[255u16, 256, 257, 300]);
        if t.chance(1, 2) {
            width = v;
            height = height.min(6);
        } else {
            height = v;
            width = width.min(6);
        }
    }
    let mut s = Sprite::empty(width, height, fmt);

    // ---- palette ----
    let want_new = fmt == Fmt::Indexed || (c.extra_palette && t.chance(1, 3));
    let legacy_only = fmt == Fmt::Indexed && t.chance(1, 5);
    if want_new && !legacy_only {
        s.palette = Some(gen_new_palette(t, fmt == Fmt::Indexed));
    }
    if legacy_only || (c.extra_palette && t.chance(1, 5)) {
        s.legacy = Some(gen_legacy(t));
        if c.user_data {
            s.sprite_user_data = t.opt_user_data(1, 2);
        }
    }
    let pal = s.effective_palette();
    let pal_ids: Vec<u8> = pal.as_ref().map(|m| m.keys().filter(|k| **k < 256).map(|k| *k as u8).collect()).unwrap_or_default();
    s.transparent = if fmt == Fmt::Indexed {
        match t.below(4) {
            0 | 1 => 0,
            2 if !pal_ids.is_empty() => pal_ids[t.below(pal_ids.len() as u32) as usize],
            _ => t.raw() as u8,
        }
    } else {
        t.pick(&[0u8, 0, 0, 7, 255])
    };

    // ---- tilesets ----
    let tiles_ok = c.tilemaps && (fmt != Fmt::Indexed || pal_ids.contains(&s.transparent));
    if tiles_ok && t.chance(1, 2) {
        let nts = 1 + t.below(3);
        let mut used = std::collections::HashSet::new();
        for _ in 0..nts {
            let mut id = match t.below(4) {
                0 | 1 => t.below(4),
                _ => t.u32_biased(),
            };
            while !used.insert(id) {
                id = id.wrapping_add(1);
            }
            let tw = 1 + t.below(c.max_tile as u32) as u16;
            let th = if t.chance(1, 2) { tw } else { 1 + t.below(c.max_tile as u32) as u16 };
            let cmax = if t.chance(1, 6) { 40 } else { 6 };
            let mut count = 1 + t.below(cmax);
            let (mut tw, mut th) = (tw, th);
            if t.chance(1, 25) {
                // tile ids beyond 8 (and rarely 16) bits: many 1x1 / 1x2 tiles
                count = t.pick(&[255u32, 256, 257, 300, 300, 65537]);
                tw = 1;
                th = 1 + t.below(2) as u16;
            }
            let per = tw as usize * th as usize;
            let mut pixels = Vec::new();
            // tile 0 fully transparent
            match fmt {
                Fmt::Rgba => pixels.extend(std::iter::repeat(0u8).take(per * 4)),
                Fmt::Gray => pixels.extend(std::iter::repeat(0u8).take(per * 2)),
                Fmt::Indexed => pixels.extend(std::iter::repeat(s.transparent).take(per)),
            }
            pixels.extend(gen_pixels(t, fmt, per * (count as usize - 1), &pal_ids, s.transparent));
            let ext_link = c.ext_files && t.chance(1, 5);
            s.tilesets.push(Tileset {
                id,
                flags: 2 | (ext_link as u32) | if t.chance(3, 4) { 4 } else { 0 },
                count,
                tw,
                th,
                base_index: t.i16_biased(),
                name: if c.long_names { t.string() } else { t.short_string() },
                ext: (t.u32_biased(), t.u32_biased()),
                pixels,
            });
        }
    }

    // ---- layers ----
    let nl = match t.below(8) {
        0 => t.below(2),
        _ => 1 + t.below(c.max_layers),
    } as usize;
    let levels = if deep_nesting && c.groups {
        // mostly descending into ever deeper groups, with occasional steps back up
        let mut v = Vec::with_capacity(nl);
        let mut prev = 0u16;
        for i in 0..nl {
            let l = if i == 0 { 0 } else if t.chance(5, 6) { prev + 1 } else { t.below(prev as u32 + 1) as u16 };
            v.push(l);
            prev = l;
        }
        v
    } else {
        gen_levels(t, nl, c.groups)
    };
    for i in 0..nl {
        let has_child = i + 1 < nl && levels[i + 1] > levels[i];
        let kind = if has_child {
            LayerKind::Group
        } else if !s.tilesets.is_empty() && t.chance(2, 5) {
            let ts = &s.tilesets[t.below(s.tilesets.len() as u32) as usize];
            LayerKind::Tilemap { tileset: ts.id }
        } else if c.groups && t.chance(1, 12) {
            LayerKind::Group
        } else {
            LayerKind::Image
        };
        let mut flags = 0u16;
        if !c.hidden || !t.chance(1, 4) {
            flags |= LF_VISIBLE;
        }
        if c.background && kind == LayerKind::Image && t.chance(1, if i == 0 { 4 } else { 16 }) {
            flags |= LF_BACKGROUND;
        }
        // the flag is a per-layer bit; nothing stops a writer from setting it on a tilemap layer
        if c.background && matches!(kind, LayerKind::Tilemap { .. }) && t.chance(1, 6) {
            flags |= LF_BACKGROUND;
        }
        flags |= (t.raw() as u16) & 0x76 & if t.chance(1, 2) { 0xFFFF } else { 0x02 };
        // bits the format has not assigned yet (a reader must ignore them; only the 7 defined bits are ever compared)
        if t.chance(1, 5) {
            flags |= (t.raw() as u16) & 0xFF80;
        }
        let blend = if c.blend_modes && t.chance(1, 2) { t.below(19) as u16 } else { 0 };
        // one layer in six is "plain": Normal mode at full opacity
        let plain = t.chance(1, 6);
        let blend = if plain { 0 } else { blend };
        s.layers.push(Layer {
            flags,
            kind,
            level: levels[i],
            blend,
            opacity: if plain { 255 } else { t.u8_biased() },
            name: if c.long_names { t.string() } else { t.short_string() },
            user_data: if c.user_data { t.opt_user_data(1, 4) } else { None },
        });
    }

    // ---- frames and cels ----
    let nf = 1 + t.below(c.max_frames) as usize;
    s.frames.clear();
    // kind plan: 0 none, 1 content, 2 link candidate
    let mut plan = vec![vec![0u8; nl]; nf];
    for f in 0..nf {
        for l in 0..nl {
            if s.layers[l].kind == LayerKind::Group {
                continue;
            }
            if t.below(8) < c.cel_density {
                let is_tm = matches!(s.layers[l].kind, LayerKind::Tilemap { .. });
                plan[f][l] = if c.links && !is_tm && nf > 1 && t.chance(1, 4) { 2 } else { 1 };
            }
        }
    }
    let mut last_image: Option<(u16, u16, Vec<u8>)> = None;
    let mut last_xy: Option<(i16, i16)> = None;
    for f in 0..nf {
        let duration = match t.below(4) {
            0 => 100,
            _ => t.u16_biased(),
        };
        let mut cels = Vec::new();
        for l in 0..nl {
            if plan[f][l] == 0 {
                continue;
            }
            let content = if plan[f][l] == 2 {
                let targets: Vec<usize> = (0..nf).filter(|g| *g != f && plan[*g][l] == 1).collect();
                if targets.is_empty() {
                    plan[f][l] = 1;
                    None
                } else {
                    Some(CelContent::Link { frame: targets[t.below(targets.len() as u32) as usize] as u16 })
                }
            } else {
                None
            };
            // an "occluder": a fully opaque, full-opacity cel covering the whole canvas (when the canvas is small
            // enough); combined with plain layers this is what occlusion shortcuts key on
            let occluder = content.is_none() && !matches!(s.layers[l].kind, LayerKind::Tilemap { .. }) && width as u32 * height as u32 <= 160 * 160 && t.chance(1, 12);
            let (content, cw, ch, unit) = match content {
                Some(cn) => (cn, 1, 1, (1u16, 1u16)),
                None => match &s.layers[l].kind {
                    LayerKind::Tilemap { tileset } => {
                        let ts = s.tileset_by_id(*tileset).unwrap().clone();
                        let (tw, th) = if t.chance(1, 12) { (1 + t.below(3) as u16, 1 + t.below(300) as u16) } else { (1 + t.below(12) as u16, 1 + t.below(12) as u16) };
                        let std = !t.chance(1, 4);
                        let masks = if std { STD_MASKS } else { [0x0000_ffff, 0x0001_0000, 0x0002_0000, 0x0004_0000] };
                        let n = tw as usize * th as usize;
                        let mut tiles = Vec::with_capacity(n);
                        let seed = t.raw64();
                        let mut r = Rng(seed);
                        let flips = c.flip_bits && t.chance(1, 3);
                        for _ in 0..n {
                            let id = (r.next() % ts.count as u64) as u32;
                            let id = if r.next() % 4 == 0 { 0 } else { id };
                            let mut wd = id;
                            if flips && r.next() % 3 == 0 {
                                wd |= masks[1 + (r.next() % 3) as usize];
                            }
                            tiles.push(wd);
                        }
                        (CelContent::Tilemap { w: tw, h: th, bits: 32, masks, tiles }, tw.saturating_mul(ts.tw), th.saturating_mul(ts.th), (ts.tw, ts.th))
                    }
                    _ => {
                        let (cw, ch) = match if occluder { 3 } else { t.below(12) } {
                            0 => (1, 1),
                            1 => (1 + t.below(3) as u16, if t.chance(1, 12) { t.pick(&[65535u16, 32768, 256, 255]) } else { 1 + t.below(3000) as u16 }),
                            2 => (if t.chance(1, 12) { t.pick(&[65535u16, 32768, 256, 255]) } else { 1 + t.below(3000) as u16 }, 1 + t.below(3) as u16),
                            3 => (if occluder { width.min(160) } else { width.min(64) }, if occluder { height.min(160) } else { height.min(64) }),
                            _ => (1 + t.below(c.max_cel as u32) as u16, 1 + t.below(c.max_cel as u32) as u16),
                        };
                        // sometimes repeat the previous image cel exactly (identical pixels stacked on each other
                        // or repeated across frames: a relationship random data never produces)
                        if let (Some((pw, ph, ppx)), true) = (&last_image, t.chance(1, 7)) {
                            (CelContent::Image { w: *pw, h: *ph, pixels: ppx.clone() }, *pw, *ph, (1, 1))
                        } else {
                            let pixels = gen_pixels(t, fmt, cw as usize * ch as usize, &pal_ids, s.transparent);
                            if pixels.len() <= 4096 {
                                last_image = Some((cw, ch, pixels.clone()));
                            }
                            (CelContent::Image { w: cw, h: ch, pixels }, cw, ch, (1, 1))
                        }
                    }
                },
            };
            let is_link = matches!(content, CelContent::Link { .. });
            let (x, y) = if is_link {
                (t.i16_biased(), t.i16_biased())
            } else if unit != (1, 1) && c.tile_aligned {
                // tile-aligned offsets from -(stored size) .. canvas + 1 tile
                let ntx = (width as i64 + unit.0 as i64 - 1) / unit.0 as i64;
                let nty = (height as i64 + unit.1 as i64 - 1) / unit.1 as i64;
                let stx = (cw / unit.0) as i64;
                let sty = (ch / unit.1) as i64;
                let far = |t: &mut Tape, unit: u16| -> i64 {
                    // tile-aligned offsets at the ends of the i16 range
                    let m = 32767 / unit as i64;
                    t.pick(&[-m, m, -m + 1, m - 1])
                };
                let ox = if t.chance(1, 3) { 0 } else if t.chance(1, 10) { far(t, unit.0) } else { t.range(-stx, ntx + 1) };
                let oy = if t.chance(1, 3) { 0 } else if t.chance(1, 10) { far(t, unit.1) } else { t.range(-sty, nty + 1) };
                ((ox * unit.0 as i64).clamp(-32768, 32767) as i16 / unit.0 as i16 * unit.0 as i16, (oy * unit.1 as i64).clamp(-32768, 32767) as i16 / unit.1 as i16 * unit.1 as i16)
            } else {
                (offset_for(t, width, cw, c.extreme_offsets), offset_for(t, height, ch, c.extreme_offsets))
            };
            // sometimes the same offset as the previous cel (stacked exactly)
            let (x, y) = match (last_xy, t.chance(1, 6)) {
                (Some(p), true) if unit == (1, 1) => p,
                _ => (x, y),
            };
            last_xy = Some((x, y));
            let (x, y) = if occluder { (0, 0) } else { (x, y) };
            let content = match content {
                CelContent::Image { w, h, mut pixels } if occluder => {
                    // make every pixel opaque (indexed sprites: leave the indices alone)
                    match fmt {
                        Fmt::Rgba => pixels.chunks_exact_mut(4).for_each(|p| p[3] = 255),
                        Fmt::Gray => pixels.chunks_exact_mut(2).for_each(|p| p[1] = 255),
                        Fmt::Indexed => {}
                    }
                    CelContent::Image { w, h, pixels }
                }
                other => other,
            };
            // occluders are mostly, not always, at full cel opacity; a link's own opacity byte is often the default
            // 255 whatever its target carries
            let is_link = matches!(content, CelContent::Link { .. });
            let cel_opacity = if occluder && t.chance(2, 3) { 255 } else if is_link && t.chance(1, 2) { 255 } else { t.u8_biased() };
            cels.push(Cel { layer: l as u16, x, y, opacity: cel_opacity, content, user_data: if c.user_data { t.opt_user_data(1, 5) } else { None } });
        }
        s.frames.push(Frame { duration, cels });
    }

    if dup_stack {
        // every image layer gets, in frame 0, an exact copy of the first image cel (same pixels, same offset),
        // with opacities drawn from a small set so that equal (backdrop, source, opacity) situations recur
        let proto = s.frames[0].cels.iter().find(|c| matches!(c.content, CelContent::Image { .. })).cloned();
        if let Some(proto) = proto {
            for l in 0..s.layers.len() {
                if s.layers[l].kind != LayerKind::Image {
                    continue;
                }
                let op = t.pick(&[255u8, 255, 0, 128, 255, 1]);
                s.layers[l].opacity = t.pick(&[255u8, 255, 0, 128]);
                s.frames[0].cels.retain(|c| c.layer as usize != l);
                let mut c = proto.clone();
                c.layer = l as u16;
                c.opacity = op;
                c.user_data = None;
                s.frames[0].cels.push(c);
            }
        }
    }
    // ---- tags ----
    if c.tags && t.chance(1, 2) {
        let n = t.below(6) as usize;
        let mut tags: Vec<Tag> = Vec::new();
        for _ in 0..n {
            if !tags.is_empty() && t.chance(1, 6) {
                let prev: Tag = tags[tags.len() - 1].clone();
                tags.push(prev);
                continue;
            }
            let from = t.u16_biased();
            let to = if t.chance(1, 4) { from } else { t.u16_biased() };
            tags.push(Tag { from, to, dir: t.below(3) as u8, repeat: t.u16_biased(), name: if c.long_names { t.string() } else { t.short_string() } });
        }
        if c.user_data && n > 0 {
            let k = t.below(n as u32 + 1) as usize;
            for _ in 0..k {
                s.tag_user_data.push(t.user_data());
            }
        }
        s.tags = Some(tags);
    }
    // ---- slices ----
    if c.slices && t.chance(1, 2) {
        let n = 1 + t.below(3) as usize;
        for _ in 0..n {
            let flags = t.below(4);
            let nk = t.below(4) as usize;
            let mut keys = Vec::new();
            for _ in 0..nk {
                keys.push(SliceKey {
                    frame: t.u32_biased(),
                    x: t.i32_biased(),
                    y: t.i32_biased(),
                    w: t.u32_biased(),
                    h: t.u32_biased(),
                    center: (t.i32_biased(), t.i32_biased(), t.u32_biased(), t.u32_biased()),
                    pivot: (t.i32_biased(), t.i32_biased()),
                });
            }
            s.slices.push(Slice { name: if c.long_names { t.string() } else { t.short_string() }, flags, keys, user_data: if c.user_data { t.opt_user_data(1, 3) } else { None } });
        }
    }
    // ---- external files ----
    if c.ext_files && t.chance(1, 3) {
        let n = 1 + t.below(3);
        let mut used = std::collections::HashSet::new();
        for _ in 0..n {
            let mut id = if !s.tilesets.is_empty() && t.chance(1, 3) { s.tilesets[t.below(s.tilesets.len() as u32) as usize].id } else { t.u32_biased() };
            while !used.insert(id) {
                id = id.wrapping_add(1);
            }
            s.ext_files.push(ExtFile { id, name: if c.long_names { t.string() } else { t.short_string() } });
        }
    }
    s
}

pub fn build_plan(t: &mut Tape) -> Plan {
    Plan {
        seed: t.raw64(),
        compress: t.pick(&[1u8, 0, 2, 2]),
        zlevel: t.pick(&[6u8, 0, 1, 9, 10, 10]),
        count_form: t.below(4) as u8,
        ignorable: t.pick(&[0u8, 0, 1, 3]),
        pad: t.pick(&[0u8, 0, 1, 4]),
        trailing: t.pick(&[0u16, 0, 1, 7, 300]),
        junk: t.chance(1, 2),
        ratio: t.pick(&[0u8, 0, 1, 2, 3]),
        legacy_beside_new: t.chance(1, 3),
        shuffle: t.chance(1, 2),
        color_profile: t.pick(&[0u8, 0, 1, 2]),
        pad_to: (0, 0),
        legacy_frame: t.pick(&[0u8, 0, 0, 1, 2, 255]),
    }
}

/// Plans for checks that can afford a frame padded to the 65534/65535/65536 chunk-count boundary
/// (C01, C07): same as build_plan, plus that padding in about 1 of 90 cases.
pub fn build_plan_padded(t: &mut Tape) -> Plan {
    let mut p = build_plan(t);
    if t.chance(1, 90) {
        p.pad_to = (t.below(3), t.pick(&[65535u32, 65534, 65536, 65535]));
    }
    p
}

pub fn tape_strategy(max: usize) -> impl proptest::strategy::Strategy<Value = Vec<u32>> {
    proptest::collection::vec(proptest::num::u32::ANY, 0..max)
}
