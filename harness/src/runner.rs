//! Lanes, counting, shrinking, replay files, evidence files, known findings.
use proptest::strategy::Strategy;
use proptest::test_runner::{Config, RngSeed, TestCaseError, TestError, TestRunner};
use serde_json::{json, Value};
use std::cell::RefCell;
use std::collections::{BTreeMap, HashSet};
use std::panic::{catch_unwind, AssertUnwindSafe};
use std::sync::Mutex;
use std::time::Instant;

pub fn verif_dir() -> String {
    std::env::var("VERIF_DIR").unwrap_or_else(|_| "/verif".to_string())
}

/// where evidence and replay files are written (default: the verif dir itself)
pub fn out_dir() -> String {
    std::env::var("VERIF_OUT").unwrap_or_else(|_| verif_dir())
}

/// cargo target dir holding the profile builds of vcheck
pub fn target_dir() -> String {
    std::env::var("VERIF_TARGET").unwrap_or_else(|_| format!("{}/harness/target", verif_dir()))
}

#[derive(Clone, Debug)]
pub struct Outcome {
    pub nontrivial: bool,
    pub hash: u64,
    pub labels: Vec<String>,
    /// short human-readable description of the case (kept for the first few non-trivial cases)
    pub sample: Option<Value>,
    /// extra numeric counters to sum into evidence
    pub counters: Vec<(&'static str, u64)>,
}

impl Outcome {
    pub fn new(nontrivial: bool, hash: u64) -> Outcome {
        Outcome { nontrivial, hash, labels: vec![], sample: None, counters: vec![] }
    }
    pub fn label(mut self, l: impl Into<String>) -> Self {
        self.labels.push(l.into());
        self
    }
    pub fn with_sample(mut self, v: Value) -> Self {
        self.sample = Some(v);
        self
    }
    pub fn count(mut self, k: &'static str, v: u64) -> Self {
        self.counters.push((k, v));
        self
    }
}

#[derive(Clone, Debug)]
pub struct Failure {
    pub msg: String,
    /// stable identity of the failure (panic location, error class ...) used for known findings
    pub signature: String,
    pub detail: Value,
}

impl Failure {
    pub fn new(signature: impl Into<String>, msg: impl Into<String>) -> Failure {
        Failure { msg: msg.into(), signature: signature.into(), detail: Value::Null }
    }
    pub fn with(mut self, v: Value) -> Self {
        self.detail = v;
        self
    }
}

pub type CheckResult = Result<Outcome, Failure>;

#[derive(Default)]
pub struct Stats {
    pub evaluations: u64,
    pub nontrivial: HashSet<u64>,
    pub labels: BTreeMap<String, u64>,
    pub samples: Vec<Value>,
    pub counters: BTreeMap<String, u64>,
    pub excluded_known: BTreeMap<String, u64>,
}

impl Stats {
    pub fn record(&mut self, o: &Outcome) {
        self.evaluations += 1;
        if o.nontrivial {
            let fresh = self.nontrivial.insert(o.hash);
            if fresh && self.samples.len() < 4 {
                if let Some(s) = &o.sample {
                    self.samples.push(s.clone());
                }
            }
        }
        for l in &o.labels {
            *self.labels.entry(l.clone()).or_insert(0) += 1;
        }
        for (k, v) in &o.counters {
            *self.counters.entry(k.to_string()).or_insert(0) += v;
        }
    }
    pub fn merge(&mut self, o: Stats) {
        self.evaluations += o.evaluations;
        self.nontrivial.extend(o.nontrivial);
        for (k, v) in o.labels {
            *self.labels.entry(k).or_insert(0) += v;
        }
        for (k, v) in o.counters {
            *self.counters.entry(k).or_insert(0) += v;
        }
        for (k, v) in o.excluded_known {
            *self.excluded_known.entry(k).or_insert(0) += v;
        }
        for s in o.samples {
            if self.samples.len() < 5 {
                self.samples.push(s);
            }
        }
    }
}

#[derive(Clone, Debug)]
pub struct Violation {
    pub case: Value,
    pub failure: Failure,
}

pub struct Run {
    pub prop: &'static str,
    pub tier: String,
    pub seed: u64,
    pub level: &'static str,
    pub started: Instant,
    pub stats: Stats,
    pub violations: Vec<Violation>,
    pub known: Vec<KnownFinding>,
    pub rule: String,
    pub assumptions: Vec<String>,
    pub exhaustive: Option<bool>,
    pub extra: BTreeMap<String, Value>,
    pub inconclusive: Option<String>,
}

#[derive(Clone, Debug)]
pub struct KnownFinding {
    pub property: String,
    pub signature: String,
    pub text: String,
}

pub fn load_known() -> Vec<KnownFinding> {
    let mut v = vec![];
    let p = format!("{}/known_findings.txt", verif_dir());
    if let Ok(s) = std::fs::read_to_string(p) {
        for line in s.lines() {
            let line = line.trim();
            if !line.starts_with("known:") {
                continue;
            }
            let rest = line["known:".len()..].trim();
            let mut property = String::new();
            let mut signature = String::new();
            let mut text = vec![];
            for tok in rest.split_whitespace() {
                if let Some(x) = tok.strip_prefix("property=") {
                    property = x.to_string();
                } else if let Some(x) = tok.strip_prefix("signature=") {
                    signature = x.to_string();
                } else {
                    text.push(tok);
                }
            }
            v.push(KnownFinding { property, signature, text: text.join(" ") });
        }
    }
    v
}

impl Run {
    pub fn new(prop: &'static str, tier: &str, seed: u64, level: &'static str) -> Run {
        Run {
            prop,
            tier: tier.to_string(),
            seed,
            level,
            started: Instant::now(),
            stats: Stats::default(),
            violations: vec![],
            known: load_known().into_iter().filter(|k| k.property == prop).collect(),
            rule: String::new(),
            assumptions: vec![],
            exhaustive: None,
            extra: BTreeMap::new(),
            inconclusive: None,
        }
    }
    pub fn thorough(&self) -> bool {
        self.tier == "thorough"
    }
    pub fn is_known(&self, sig: &str) -> bool {
        self.known.iter().any(|k| k.signature == sig)
    }

    /// Handle one directly-enumerated case (no proptest): record or collect the violation.
    pub fn direct(&mut self, case: impl FnOnce() -> Value, r: CheckResult) {
        match r {
            Ok(o) => self.stats.record(&o),
            Err(f) => {
                self.stats.evaluations += 1;
                if self.is_known(&f.signature) {
                    *self.stats.excluded_known.entry(f.signature.clone()).or_insert(0) += 1;
                } else if self.violations.len() < 5 && !self.violations.iter().any(|v| v.failure.signature == f.signature) {
                    self.violations.push(Violation { case: case(), failure: f });
                }
            }
        }
    }

    /// Finish: write evidence, print verdict lines, return the exit code.
    pub fn finish(mut self) -> i32 {
        let wall = self.started.elapsed().as_secs_f64();
        let _ = std::fs::create_dir_all(format!("{}/evidence/replay", out_dir()));
        let mut replay_paths = vec![];
        for (i, v) in self.violations.iter().enumerate() {
            let path = format!("{}/evidence/replay/{}-{}-{}-{}.json", out_dir(), self.prop, self.tier, self.seed, i);
            let doc = json!({
                "property": self.prop, "tier": self.tier, "seed": self.seed,
                "case": v.case, "message": v.failure.msg, "signature": v.failure.signature, "detail": v.failure.detail,
            });
            let _ = std::fs::write(&path, serde_json::to_string_pretty(&doc).unwrap());
            replay_paths.push(path);
        }
        let mut coverage = serde_json::Map::new();
        coverage.insert("evaluations".into(), json!(self.stats.evaluations));
        coverage.insert("distinct_nontrivial".into(), json!(self.stats.nontrivial.len()));
        coverage.insert("rule".into(), json!(self.rule));
        if self.stats.samples.is_empty() {
            self.stats.samples.push(json!("(no non-trivial sample recorded)"));
        }
        coverage.insert("samples".into(), json!(self.stats.samples));
        coverage.insert("labels".into(), json!(self.stats.labels));
        coverage.insert("counters".into(), json!(self.stats.counters));
        if !self.stats.excluded_known.is_empty() {
            coverage.insert("excluded_known".into(), json!(self.stats.excluded_known));
        }
        if let Some(e) = self.exhaustive {
            coverage.insert("exhaustive".into(), json!(e));
        }
        for (k, v) in &self.extra {
            coverage.insert(k.clone(), v.clone());
        }
        if let Some(r) = &self.inconclusive {
            coverage.insert("inconclusive".into(), json!(r));
        }
        let ev = json!({
            "property_id": self.prop,
            "tier": self.tier,
            "seed": self.seed,
            "level": self.level,
            "coverage": Value::Object(coverage),
            "assumptions": self.assumptions,
            "wall_s": wall,
            "violations": self.violations.len(),
        });
        let evp = format!("{}/evidence/{}.json", out_dir(), self.prop);
        std::fs::write(&evp, serde_json::to_string_pretty(&ev).unwrap()).expect("write evidence");
        for k in &self.known {
            let n = self.stats.excluded_known.get(&k.signature).copied().unwrap_or(0);
            println!("KNOWN-FINDING: property={} signature={} {} (hit {} times this run)", k.property, k.signature, k.text, n);
        }
        println!(
            "{} {} seed={} evaluations={} distinct_nontrivial={} wall={:.1}s",
            self.prop,
            self.tier,
            self.seed,
            self.stats.evaluations,
            self.stats.nontrivial.len(),
            wall
        );
        let harness_faults: Vec<&Violation> = self.violations.iter().filter(|v| v.failure.signature.starts_with("harness")).collect();
        if !harness_faults.is_empty() {
            for v in &harness_faults {
                println!("  harness fault [{}]: {}", v.failure.signature, v.failure.msg);
            }
            println!("INCONCLUSIVE property={} reason=harness-fault", self.prop);
            return 2;
        }
        if !self.violations.is_empty() {
            for (v, p) in self.violations.iter().zip(&replay_paths) {
                println!("  failure [{}]: {}", v.failure.signature, v.failure.msg);
                println!("VIOLATION property={} replay={}", self.prop, p);
            }
            return 1;
        }
        if let Some(r) = &self.inconclusive {
            println!("INCONCLUSIVE property={} reason={}", self.prop, r);
            return 2;
        }
        0
    }
}

// ---------------- panic capture ----------------

thread_local! {
    static LAST_PANIC: RefCell<Option<(String, String)>> = RefCell::new(None);
    static QUIET: RefCell<bool> = RefCell::new(false);
}

pub fn install_panic_hook() {
    let default = std::panic::take_hook();
    std::panic::set_hook(Box::new(move |info| {
        let loc = info.location().map(|l| format!("{}:{}", l.file(), l.line())).unwrap_or_else(|| "?".into());
        let msg = if let Some(s) = info.payload().downcast_ref::<&str>() {
            s.to_string()
        } else if let Some(s) = info.payload().downcast_ref::<String>() {
            s.clone()
        } else {
            "?".to_string()
        };
        LAST_PANIC.with(|p| *p.borrow_mut() = Some((loc, msg)));
        let quiet = QUIET.with(|q| *q.borrow());
        if !quiet {
            default(info);
        }
    }));
}

/// Run f, turning a panic into (location, message).
pub fn guarded<T>(f: impl FnOnce() -> T) -> Result<T, (String, String)> {
    QUIET.with(|q| *q.borrow_mut() = true);
    LAST_PANIC.with(|p| *p.borrow_mut() = None);
    let r = catch_unwind(AssertUnwindSafe(f));
    QUIET.with(|q| *q.borrow_mut() = false);
    match r {
        Ok(v) => Ok(v),
        Err(_) => Err(LAST_PANIC.with(|p| p.borrow_mut().take()).unwrap_or(("?".into(), "?".into()))),
    }
}

/// Strip the absolute prefix so signatures are stable (src/file.rs:123).
pub fn short_loc(loc: &str) -> String {
    if loc.starts_with("src/") {
        return format!("harness/{}", loc);
    }
    match loc.find("/src/") {
        Some(i) if loc.starts_with("/repo") => loc[i + 1..].to_string(),
        _ => match loc.find("/registry/src/") {
            Some(i) => format!("dep:{}", loc[i + 14..].splitn(2, '/').nth(1).unwrap_or(loc)),
            None => loc.to_string(),
        },
    }
}

pub fn check_guarded(f: impl FnOnce() -> CheckResult) -> CheckResult {
    match guarded(f) {
        Ok(r) => r,
        Err((loc, msg)) => {
            let l = short_loc(&loc);
            if l.starts_with("harness/") {
                // a panic inside the harness itself is a harness fault, never a property violation
                return Err(Failure::new(format!("harness-panic:{}", l), format!("harness bug: panic at {}: {}", l, msg)));
            }
            Err(Failure::new(format!("panic:{}", l), format!("panic at {}: {}", l, msg)))
        }
    }
}

// ---------------- tape-driven property lanes ----------------

pub fn lane_seed(seed: u64, prop: &str, lane: u64) -> u64 {
    let mut h = 0xcbf29ce484222325u64 ^ seed.wrapping_mul(0x100000001b3);
    for b in prop.bytes() {
        h = (h ^ b as u64).wrapping_mul(0x100000001b3);
    }
    crate::encode::mix(h, lane + 1)
}

pub fn hash_bytes(b: &[u8]) -> u64 {
    let mut h = 0xcbf29ce484222325u64;
    for chunk in b.chunks(8) {
        let mut w = [0u8; 8];
        w[..chunk.len()].copy_from_slice(chunk);
        h = (h ^ u64::from_le_bytes(w)).wrapping_mul(0x100000001b3);
        h ^= h >> 29;
    }
    h ^ (b.len() as u64).wrapping_mul(0x9E3779B97F4A7C15)
}

/// Run `check` over `lanes` x `cases` generated tapes. On failure the tape is shrunk by proptest
/// and the shrunk tape is reported as the violation's case ({"tape": [...]}).
pub fn run_tapes(run: &mut Run, lanes: usize, cases: u32, tape_max: usize, check: &(dyn Fn(&[u32]) -> CheckResult + Sync)) {
    let results: Mutex<Vec<(Stats, Option<Violation>)>> = Mutex::new(vec![]);
    let known: Vec<String> = run.known.iter().map(|k| k.signature.clone()).collect();
    let prop = run.prop;
    let seed = run.seed;
    std::thread::scope(|sc| {
        for lane in 0..lanes {
            let results = &results;
            let known = &known;
            sc.spawn(move || {
                let cfg = Config {
                    cases,
                    failure_persistence: None,
                    rng_seed: RngSeed::Fixed(lane_seed(seed, prop, lane as u64)),
                    max_shrink_iters: 4000,
                    max_shrink_time: 90_000,
                    max_global_rejects: 1,
                    ..Config::default()
                };
                let mut runner = TestRunner::new(cfg);
                let stats = RefCell::new(Stats::default());
                let failed = RefCell::new(false);
                let first_failure: RefCell<Option<(Vec<u32>, Failure)>> = RefCell::new(None);
                let strategy = crate::gen::tape_strategy(tape_max);
                let r = runner.run(&strategy, |tape| {
                    let res = check_guarded(|| check(&tape));
                    match res {
                        Ok(o) => {
                            if !*failed.borrow() {
                                stats.borrow_mut().record(&o);
                            }
                            Ok(())
                        }
                        Err(f) => {
                            if known.iter().any(|k| *k == f.signature) {
                                if !*failed.borrow() {
                                    let mut st = stats.borrow_mut();
                                    st.evaluations += 1;
                                    *st.excluded_known.entry(f.signature.clone()).or_insert(0) += 1;
                                }
                                return Ok(());
                            }
                            if !*failed.borrow() {
                                stats.borrow_mut().evaluations += 1;
                                *first_failure.borrow_mut() = Some((tape.clone(), f.clone()));
                            }
                            *failed.borrow_mut() = true;
                            Err(TestCaseError::fail(f.signature))
                        }
                    }
                });
                let viol = match r {
                    Ok(()) => None,
                    Err(TestError::Fail(_, tape)) => {
                        match check_guarded(|| check(&tape)) {
                            Err(f) => Some(Violation { case: json!({ "tape": tape }), failure: f }),
                            Ok(_) => {
                                // The shrunk case passes when run again: the failure depends on state left behind by
                                // earlier cases on this thread (a cache, a thread-local, a process-wide table). Report
                                // the original failing case; it may not reproduce in isolation.
                                let (t0, f0) = first_failure.borrow_mut().take().unwrap_or((tape.clone(), Failure::new("unknown", "?")));
                                let mut f = f0.clone();
                                f.signature = format!("history-dependent:{}", f0.signature);
                                f.msg = format!("result depends on what was loaded/called before on the same thread, or on thread timing (the case fails within the run but passes when run again alone): {}", f0.msg);
                                Some(Violation { case: json!({ "tape": t0, "history_dependent": true }), failure: f })
                            }
                        }
                    }
                    Err(TestError::Abort(r)) => Some(Violation { case: Value::Null, failure: Failure::new("harness-abort", format!("proptest aborted: {}", r)) }),
                };
                results.lock().unwrap().push((stats.into_inner(), viol));
            });
        }
    });
    for (st, v) in results.into_inner().unwrap() {
        run.stats.merge(st);
        if let Some(v) = v {
            if !run.violations.iter().any(|x| x.failure.signature == v.failure.signature) {
                run.violations.push(v);
            }
        }
    }
}

pub fn tape_from_case(case: &Value) -> Option<Vec<u32>> {
    case.get("tape")?.as_array().map(|a| a.iter().map(|x| x.as_u64().unwrap_or(0) as u32).collect())
}

pub fn hex(b: &[u8]) -> String {
    let mut s = String::with_capacity(b.len() * 2);
    for x in b {
        s.push_str(&format!("{:02x}", x));
    }
    s
}

pub fn unhex(s: &str) -> Vec<u8> {
    (0..s.len() / 2).map(|i| u8::from_str_radix(&s[2 * i..2 * i + 2], 16).unwrap_or(0)).collect()
}

/// Parallel map over an index range with per-lane accumulators (for exhaustive enumerations).
pub fn par_chunks<A: Send>(lanes: usize, n: u64, make: impl Fn() -> A + Sync, body: impl Fn(&mut A, u64) + Sync) -> Vec<A> {
    let out: Mutex<Vec<A>> = Mutex::new(vec![]);
    std::thread::scope(|sc| {
        for lane in 0..lanes as u64 {
            let out = &out;
            let make = &make;
            let body = &body;
            sc.spawn(move || {
                let mut a = make();
                let mut i = lane;
                while i < n {
                    body(&mut a, i);
                    i += lanes as u64;
                }
                out.lock().unwrap().push(a);
            });
        }
    });
    out.into_inner().unwrap()
}
