//! C12 — memory while loading is bounded by the bytes supplied.
use super::robust::*;
use crate::runner::*;

pub fn run(run: &mut Run) {
    run.rule = "inputs: the C04 corpus with the inflation sweep made explicit (every size/count/dimension/index/enum field of every base file set to each larger boundary value up to its type maximum, one at a time), deflate bombs with consistent and inconsistent declarations, table-amplification shapes. Oracle: counting global allocator in deny mode around AsepriteFile::read: live bytes of the loading thread never exceed 64 MiB + 8192 x (bytes the reader has delivered so far). non-trivial: input is not an unmodified well-formed file and the parser reached chunk dispatch; distinct by content hash".into();
    run.assumptions = vec!["realloc is counted as its size delta (no transient double counting)".into(), "bound is evaluated against the bytes delivered at the moment of each allocation (stricter than against the final count)".into()];
    campaign(run, Focus::C12);
}

pub fn replay(case: &serde_json::Value) -> CheckResult {
    replay_bytes(Focus::C12, case)
}
