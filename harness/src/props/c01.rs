//! C01 — decoded structure equals what the file encodes (round trip against the generating model).
use crate::encode::{encode, Plan};
use crate::gen::{build_plan_padded as build_plan, build_sprite, GenCfg, Tape};
use crate::model::*;
use crate::runner::*;
use asefile::{AnimationDirection, AsepriteFile, ExternalFileId, LayerType, PixelFormat};
use serde_json::json;

pub fn cfg() -> GenCfg {
    let mut c = GenCfg::full();
    c.big_canvas = true;
    c.long_names = true;
    c.canvas_typ = 12;
    c.max_cel = 6;
    c.max_layers = 7;
    c.max_frames = 5;
    c
}

macro_rules! ensure {
    ($cond:expr, $sig:expr, $($arg:tt)*) => {
        if !($cond) {
            return Err(Failure::new($sig, format!($($arg)*)));
        }
    };
}

pub fn compare_structure(s: &Sprite, f: &AsepriteFile) -> Result<(), Failure> {
    ensure!(f.width() == s.width as usize && f.height() == s.height as usize, "header-size", "size {}x{} != {}x{}", f.width(), f.height(), s.width, s.height);
    ensure!(f.size() == (s.width as usize, s.height as usize), "header-size", "size() mismatch");
    ensure!(f.num_frames() == s.frames.len() as u32, "num-frames", "num_frames {} != {}", f.num_frames(), s.frames.len());
    ensure!(f.num_layers() == s.layers.len() as u32, "num-layers", "num_layers {} != {}", f.num_layers(), s.layers.len());
    let pf = match s.fmt {
        Fmt::Rgba => PixelFormat::Rgba,
        Fmt::Gray => PixelFormat::Grayscale,
        Fmt::Indexed => PixelFormat::Indexed { transparent_color_index: s.transparent },
    };
    ensure!(f.pixel_format() == pf, "pixel-format", "pixel format {:?} != {:?}", f.pixel_format(), pf);
    ensure!(f.pixel_format().bytes_per_pixel() == s.fmt.bpp(), "pixel-format", "bytes_per_pixel");
    let ti = if s.fmt == Fmt::Indexed { Some(s.transparent) } else { None };
    ensure!(f.transparent_color_index() == ti, "transparent-index", "transparent index {:?} != {:?}", f.transparent_color_index(), ti);
    ensure!(f.pixel_format().transparent_color_index() == ti, "transparent-index", "PixelFormat::transparent_color_index");
    ensure!(f.is_indexed_color() == (s.fmt == Fmt::Indexed), "pixel-format", "is_indexed_color");
    for (i, fr) in s.frames.iter().enumerate() {
        let d = f.frame(i as u32).duration();
        ensure!(d == fr.duration as u32, "frame-duration", "frame {} duration {} != {}", i, d, fr.duration);
        ensure!(f.frame(i as u32).id() == i as u32, "frame-id", "frame id");
    }
    // layers
    let ids: Vec<u32> = f.layers().map(|l| l.id()).collect();
    ensure!(ids == (0..s.layers.len() as u32).collect::<Vec<_>>(), "layers-iter", "layers() visits {:?}", &ids[..ids.len().min(10)]);
    for (i, l) in s.layers.iter().enumerate() {
        let o = f.layer(i as u32);
        ensure!(o.id() == i as u32, "layer-id", "layer id");
        ensure!(o.name() == l.name, "layer-name", "layer {} name {:?} != {:?}", i, trunc(o.name()), trunc(&l.name));
        ensure!(o.flags().bits() == (l.flags & 0x7F) as u32, "layer-flags", "layer {} flags {:#x} != {:#x}", i, o.flags().bits(), l.flags & 0x7F);
        ensure!(crate::observe::blend_id(o.blend_mode()) == l.blend, "layer-blend", "layer {} blend {:?} != {}", i, o.blend_mode(), l.blend);
        ensure!(o.opacity() == l.opacity, "layer-opacity", "layer {} opacity {} != {}", i, o.opacity(), l.opacity);
        let lt = match l.kind {
            LayerKind::Image => LayerType::Image,
            LayerKind::Group => LayerType::Group,
            LayerKind::Tilemap { tileset } => LayerType::Tilemap(tileset),
        };
        ensure!(o.layer_type() == lt, "layer-type", "layer {} type {:?} != {:?}", i, o.layer_type(), lt);
        ensure!(o.is_tilemap() == matches!(l.kind, LayerKind::Tilemap { .. }), "layer-type", "is_tilemap");
    }
    let mut names: Vec<&str> = s.layers.iter().map(|l| l.name.as_str()).collect();
    names.sort();
    names.dedup();
    for n in names.iter().take(12) {
        let want = s.layers.iter().position(|l| l.name == *n).map(|i| i as u32);
        let got = f.layer_by_name(n).map(|l| l.id());
        ensure!(got == want, "layer-by-name", "layer_by_name({:?}) = {:?}, expected {:?}", trunc(n), got, want);
    }
    ensure!(f.layer_by_name("\u{1}absent-name\u{2}").is_none(), "layer-by-name", "absent layer name found");
    // tags
    let tags: &[Tag] = s.tags.as_deref().unwrap_or(&[]);
    ensure!(f.num_tags() == tags.len() as u32, "num-tags", "num_tags {} != {}", f.num_tags(), tags.len());
    for (i, t) in tags.iter().enumerate() {
        let o = f.tag(i as u32);
        let o2 = f.get_tag(i as u32);
        ensure!(o2.is_some(), "get-tag", "get_tag({}) is None", i);
        ensure!(std::ptr::eq(o, o2.unwrap()), "get-tag", "tag/get_tag disagree");
        ensure!(o.name() == t.name, "tag-name", "tag {} name", i);
        ensure!(o.from_frame() == t.from as u32 && o.to_frame() == t.to as u32, "tag-range", "tag {} range {}..{} != {}..{}", i, o.from_frame(), o.to_frame(), t.from, t.to);
        let d = match o.animation_direction() {
            AnimationDirection::Forward => 0,
            AnimationDirection::Reverse => 1,
            AnimationDirection::PingPong => 2,
        };
        ensure!(d == t.dir, "tag-dir", "tag {} direction {} != {}", i, d, t.dir);
        let rep = o.repeat().map(|r| r.get());
        let want = if t.repeat == 0 { None } else { Some(t.repeat as u32) };
        ensure!(rep == want, "tag-repeat", "tag {} repeat {:?} != {:?}", i, rep, want);
    }
    ensure!(f.get_tag(tags.len() as u32).is_none() && f.get_tag(u32::MAX).is_none(), "get-tag", "get_tag out of range is Some");
    for probe in [65536u32, 65536 + tags.len() as u32, 0x1_0000_u32.wrapping_mul(3), 1 << 31] {
        ensure!(f.get_tag(probe).is_none(), "get-tag", "get_tag({}) is Some with {} tags", probe, tags.len());
    }
    let mut tnames: Vec<&str> = tags.iter().map(|t| t.name.as_str()).collect();
    tnames.sort();
    tnames.dedup();
    for n in tnames.iter().take(12) {
        let want = tags.iter().position(|t| t.name == *n);
        let got = f.tag_by_name(n).and_then(|t| (0..f.num_tags()).position(|i| std::ptr::eq(f.tag(i), t)));
        ensure!(got == want, "tag-by-name", "tag_by_name({:?}) = {:?}, expected {:?}", trunc(n), got, want);
    }
    ensure!(f.tag_by_name("\u{1}absent-name\u{2}").is_none(), "tag-by-name", "absent tag name found");
    // slices
    ensure!(f.slices().len() == s.slices.len(), "num-slices", "slices {} != {}", f.slices().len(), s.slices.len());
    for (i, (o, m)) in f.slices().iter().zip(&s.slices).enumerate() {
        ensure!(o.name == m.name, "slice-name", "slice {} name", i);
        ensure!(o.keys.len() == m.keys.len(), "slice-keys", "slice {} keys {} != {}", i, o.keys.len(), m.keys.len());
        for (j, (ok, mk)) in o.keys.iter().zip(&m.keys).enumerate() {
            ensure!(ok.from_frame == mk.frame, "slice-key", "slice {} key {} frame {} != {}", i, j, ok.from_frame, mk.frame);
            ensure!(ok.origin == (mk.x, mk.y), "slice-key", "slice {} key {} origin {:?} != {:?}", i, j, ok.origin, (mk.x, mk.y));
            ensure!(ok.size == (mk.w, mk.h), "slice-key", "slice {} key {} size {:?} != {:?}", i, j, ok.size, (mk.w, mk.h));
            let s9 = ok.slice9.as_ref().map(|s| (s.center_x, s.center_y, s.center_width, s.center_height));
            let want9 = if m.flags & 1 != 0 { Some(mk.center) } else { None };
            ensure!(s9 == want9, "slice-9", "slice {} key {} slice9 {:?} != {:?}", i, j, s9, want9);
            let wantp = if m.flags & 2 != 0 { Some(mk.pivot) } else { None };
            ensure!(ok.pivot == wantp, "slice-pivot", "slice {} key {} pivot {:?} != {:?}", i, j, ok.pivot, wantp);
        }
    }
    // palette
    match (s.effective_palette(), f.palette()) {
        (None, None) => {}
        (Some(m), Some(p)) => {
            ensure!(p.num_colors() as usize == m.len(), "palette-count", "num_colors {} != {}", p.num_colors(), m.len());
            for (id, (rgba, name)) in &m {
                let e = p.color(*id);
                ensure!(e.is_some(), "palette-entry", "palette entry {} missing", id);
                let e = e.unwrap();
                ensure!(e.id() == *id, "palette-entry", "entry id {} != {}", e.id(), id);
                ensure!(e.raw_rgba8() == *rgba && [e.red(), e.green(), e.blue(), e.alpha()] == *rgba, "palette-entry", "entry {} rgba {:?} != {:?}", id, e.raw_rgba8(), rgba);
                ensure!(e.name() == name.as_deref(), "palette-name", "entry {} name {:?} != {:?}", id, e.name(), name);
            }
            let lo = *m.keys().next().unwrap();
            let hi = *m.keys().last().unwrap();
            for probe in [lo.wrapping_sub(1), hi.wrapping_add(1), u32::MAX, 0, 255, 256] {
                if !m.contains_key(&probe) {
                    ensure!(p.color(probe).is_none(), "palette-absent", "palette.color({}) should be None", probe);
                }
            }
        }
        (a, b) => {
            return Err(Failure::new("palette-presence", format!("palette presence: model {} file {}", a.is_some(), b.is_some())));
        }
    }
    // external files
    ensure!(f.external_files().map().len() == s.ext_files.len(), "ext-files", "external files {} != {}", f.external_files().map().len(), s.ext_files.len());
    for e in &s.ext_files {
        let id = ExternalFileId::new(e.id);
        let o = f.external_file_by_id(&id);
        ensure!(o.is_some(), "ext-files", "external file {} missing", e.id);
        let o = o.unwrap();
        ensure!(o.id().value() == e.id && o.name() == e.name, "ext-files", "external file {} fields", e.id);
        ensure!(f.external_files().get(&id).map(|x| x.name()) == Some(e.name.as_str()), "ext-files", "ExternalFilesById::get");
    }
    let mut absent = 0xABCD_EF01u32;
    while s.ext_files.iter().any(|e| e.id == absent) {
        absent += 1;
    }
    ensure!(f.external_file_by_id(&ExternalFileId::new(absent)).is_none(), "ext-files", "absent external file found");
    // tilesets
    ensure!(f.tilesets().len() as usize == s.tilesets.len(), "tilesets", "tilesets {} != {}", f.tilesets().len(), s.tilesets.len());
    ensure!(f.tilesets().is_empty() == s.tilesets.is_empty(), "tilesets", "is_empty");
    let mut seen: Vec<u32> = f.tilesets().iter().map(|t| t.id()).collect();
    seen.sort();
    let mut want: Vec<u32> = s.tilesets.iter().map(|t| t.id).collect();
    want.sort();
    ensure!(seen == want, "tilesets-iter", "tilesets().iter() ids {:?} != {:?}", seen, want);
    for t in &s.tilesets {
        let o = f.tilesets().get(t.id);
        ensure!(o.is_some(), "tilesets", "tileset {} missing", t.id);
        let o = o.unwrap();
        ensure!(o.id() == t.id, "tileset-id", "tileset id");
        ensure!(o.empty_tile_is_id_zero() == (t.flags & 4 != 0), "tileset-flags", "tileset {} empty_tile_is_id_zero", t.id);
        ensure!(o.tile_count() == t.count, "tileset-count", "tileset {} count {} != {}", t.id, o.tile_count(), t.count);
        ensure!((o.tile_size().width(), o.tile_size().height()) == (t.tw, t.th), "tileset-size", "tileset {} tile size", t.id);
        ensure!(o.base_index() == t.base_index, "tileset-base", "tileset {} base index {} != {}", t.id, o.base_index(), t.base_index);
        ensure!(o.name() == t.name, "tileset-name", "tileset {} name", t.id);
        let ext = o.external_file().map(|e| (e.external_file_id().value(), e.tileset_id()));
        let wante = if t.flags & 1 != 0 { Some(t.ext) } else { None };
        ensure!(ext == wante, "tileset-ext", "tileset {} external ref {:?} != {:?}", t.id, ext, wante);
    }
    let mut absent = 0x1234_5678u32;
    while s.tilesets.iter().any(|t| t.id == absent) {
        absent += 1;
    }
    ensure!(f.tilesets().get(absent).is_none(), "tilesets", "absent tileset found");
    Ok(())
}

fn trunc(s: &str) -> String {
    s.chars().take(24).collect()
}

pub fn build(tape: &[u32]) -> (Sprite, Plan) {
    let mut t = Tape::new(tape);
    let mut s = build_sprite(&mut t, &cfg());
    // frame-count stress (empty frames are cheap)
    if t.chance(1, 60) {
        let n = t.pick(&[65535usize, 256, 257, 1000, 4096, 65534]);
        while s.frames.len() < n {
            let d = ((s.frames.len() * 7919) % 65536) as u16;
            s.frames.push(Frame { duration: d, cels: vec![] });
        }
    }
    if t.chance(1, 120) {
        let n = t.pick(&[65535usize, 300, 1024, 5000]);
        while s.layers.len() < n {
            let i = s.layers.len();
            s.layers.push(Layer { flags: (i % 128) as u16, kind: LayerKind::Image, level: 0, blend: (i % 19) as u16, opacity: (i % 256) as u8, name: format!("L{}", i % 97), user_data: None });
        }
    }
    // entity-count stress (counts beyond 8-bit; cheap because the entities are tiny)
    if t.chance(1, 40) {
        let n = t.pick(&[255usize, 256, 257, 300, 1000]);
        let tags = s.tags.get_or_insert_with(Vec::new);
        while tags.len() < n {
            let i = tags.len();
            tags.push(Tag { from: i as u16, to: (i * 3) as u16, dir: (i % 3) as u8, repeat: (i % 5) as u16, name: format!("t{}", i % 50) });
        }
    }
    if t.chance(1, 40) {
        let n = t.pick(&[255usize, 256, 257, 300]);
        while s.slices.len() < n {
            let i = s.slices.len();
            s.slices.push(Slice { name: format!("s{}", i % 40), flags: (i % 4) as u32, keys: vec![SliceKey { frame: i as u32, x: -(i as i32), y: i as i32, w: i as u32, h: 1, center: (1, 2, 3, 4), pivot: (-5, 6) }], user_data: None });
        }
    }
    if t.chance(1, 40) && !s.slices.is_empty() {
        let n = t.pick(&[255usize, 256, 257, 300]);
        let k0 = s.slices[0].keys.first().cloned().unwrap_or(SliceKey { frame: 0, x: 0, y: 0, w: 1, h: 1, center: (0, 0, 0, 0), pivot: (0, 0) });
        while s.slices[0].keys.len() < n {
            let mut k = k0.clone();
            k.frame = s.slices[0].keys.len() as u32;
            s.slices[0].keys.push(k);
        }
    }
    if t.chance(1, 40) {
        let n = t.pick(&[255usize, 256, 257, 300]);
        while s.ext_files.len() < n {
            let i = s.ext_files.len() as u32;
            let id = 1_000_000 + i * 7;
            if s.ext_files.iter().all(|e| e.id != id) {
                s.ext_files.push(ExtFile { id, name: format!("f{}", i) });
            }
        }
    }
    let plan = build_plan(&mut t);
    (s, plan)
}

pub fn summarize(s: &Sprite) -> serde_json::Value {
    json!({
        "canvas": [s.width, s.height], "fmt": format!("{:?}", s.fmt), "transparent": s.transparent,
        "frames": s.frames.len(), "durations": s.frames.iter().take(6).map(|f| f.duration).collect::<Vec<_>>(),
        "layers": s.layers.iter().take(8).map(|l| json!({"name": trunc(&l.name), "flags": l.flags, "level": l.level, "blend": l.blend, "opacity": l.opacity, "kind": format!("{:?}", l.kind)})).collect::<Vec<_>>(),
        "cels": s.frames.iter().map(|f| f.cels.len()).sum::<usize>(),
        "tags": s.tags.as_ref().map(|t| t.iter().map(|t| json!([trunc(&t.name), t.from, t.to, t.dir, t.repeat])).collect::<Vec<_>>()),
        "slices": s.slices.iter().map(|x| json!({"name": trunc(&x.name), "flags": x.flags, "keys": x.keys.len()})).collect::<Vec<_>>(),
        "palette": s.palette.as_ref().map(|p| json!({"first": p.first, "n": p.entries.len()})),
        "legacy": s.legacy.as_ref().map(|l| json!({"kind": l.kind, "packets": l.packets.iter().map(|p| (p.skip, p.colors.len())).collect::<Vec<_>>()})),
        "ext_files": s.ext_files.iter().map(|e| e.id).collect::<Vec<_>>(),
        "tilesets": s.tilesets.iter().map(|t| json!({"id": t.id, "flags": t.flags, "count": t.count, "tile": [t.tw, t.th], "base": t.base_index})).collect::<Vec<_>>(),
    })
}

pub fn check(tape: &[u32]) -> CheckResult {
    let (s, plan) = build(tape);
    let enc = encode(&s, &plan);
    let f = match AsepriteFile::read(&enc.bytes[..]) {
        Ok(f) => f,
        Err(e) => return Err(Failure::new("load-error", format!("well-formed file failed to load: {}", e)).with(json!({"model": summarize(&s), "plan": format!("{:?}", plan)}))),
    };
    compare_structure(&s, &f).map_err(|f| f.with(json!({"model": summarize(&s), "plan": format!("{:?}", plan), "file_hex_prefix": hex(&enc.bytes[..enc.bytes.len().min(256)])})))?;
    // layers() as an Iterator: a short program of iterator operations drawn from the tape must behave exactly like
    // the same program on a Vec of the layer ids (exhaustion, nth past the end, last/count after partial use)
    {
        let n = f.num_layers();
        let mut it = f.layers();
        let mut model = (0..n).collect::<Vec<u32>>().into_iter();
        let mut prog = vec![];
        for k in 0..6u32 {
            let op = (tape.get(k as usize).copied().unwrap_or(0) ^ (tape.len() as u32).wrapping_mul(2654435761)) >> 7;
            let arg = (op >> 8) as usize % (n as usize + 3);
            let (got, want, name): (String, String, String) = match op % 7 {
                0 => (format!("{:?}", it.next().map(|l| l.id())), format!("{:?}", model.next()), "next".into()),
                1 => (format!("{:?}", it.nth(arg).map(|l| l.id())), format!("{:?}", model.nth(arg)), format!("nth({})", arg)),
                2 => (format!("{:?}", it.by_ref().take(arg).map(|l| l.id()).collect::<Vec<_>>()), format!("{:?}", model.by_ref().take(arg).collect::<Vec<_>>()), format!("by_ref().take({})", arg)),
                3 => {
                    let (a, b) = (it.size_hint(), model.size_hint());
                    // a hint only has to be consistent with the truth
                    let truth = b.0;
                    (format!("{}", a.0 <= truth && a.1.map_or(true, |u| u >= truth)), "true".into(), "size_hint".into())
                }
                4 if k >= 3 => {
                    let r = (format!("{:?}", it.last().map(|l| l.id())), format!("{:?}", model.last()), "last".to_string());
                    prog.push(r.2.clone());
                    if r.0 != r.1 {
                        return Err(Failure::new("layers-iterator", format!("layers() after {:?}: last() = {}, a Vec of the layer ids gives {}", prog, r.0, r.1)));
                    }
                    break;
                }
                5 if k >= 3 => {
                    let r = (format!("{}", it.count()), format!("{}", model.count()), "count".to_string());
                    prog.push(r.2.clone());
                    if r.0 != r.1 {
                        return Err(Failure::new("layers-iterator", format!("layers() after {:?}: count() = {}, a Vec of the layer ids gives {}", prog, r.0, r.1)));
                    }
                    break;
                }
                _ => (format!("{:?}", it.next().map(|l| l.id())), format!("{:?}", model.next()), "next".into()),
            };
            prog.push(name);
            if got != want {
                return Err(Failure::new("layers-iterator", format!("layers() driven by {:?}: last step gives {}, a Vec of the layer ids gives {}", prog, got, want)));
            }
        }
    }
    // every eighth case: a sibling sprite (same colours and structure, every name different) is loaded while this
    // one is still alive; each must report its own data
    if tape.len() % 8 == 3 && enc.bytes.len() < 200_000 {
        let sib = super::c16::rename(&s);
        let eb = encode(&sib, &plan);
        if let Ok(fb) = AsepriteFile::read(&eb.bytes[..]) {
            compare_structure(&sib, &fb).map_err(|mut e| {
                e.signature = format!("cross-sprite-state:{}", e.signature);
                e.msg = format!("a sibling sprite (same colours, other names) loaded while the first is alive reports wrong data: {}", e.msg);
                e.with(json!({"model": summarize(&sib)}))
            })?;
            compare_structure(&s, &f).map_err(|mut e| {
                e.signature = format!("cross-sprite-state:{}", e.signature);
                e
            })?;
        }
    }
    // non-triviality and labels
    let entities = s.layers.len() >= 2 || s.tags.as_ref().map_or(false, |t| !t.is_empty()) || !s.slices.is_empty() || s.palette.is_some() || s.legacy.is_some() || !s.ext_files.is_empty() || !s.tilesets.is_empty();
    let mut labels = vec![];
    let mut nondefault = false;
    let mut lab = |c: bool, l: &str, labels: &mut Vec<String>| {
        if c {
            labels.push(l.to_string());
            nondefault = true;
        }
    };
    lab(s.layers.iter().any(|l| l.opacity != 255), "layer-opacity<255", &mut labels);
    lab(s.layers.iter().any(|l| l.level > 0), "level>0", &mut labels);
    lab(s.layers.iter().any(|l| l.level > 1), "level>1", &mut labels);
    lab(s.frames.iter().any(|f| f.duration != 100), "duration!=100", &mut labels);
    lab(s.tags.as_ref().map_or(false, |t| t.iter().any(|t| t.dir != 0)), "tag-non-forward", &mut labels);
    lab(s.tags.as_ref().map_or(false, |t| t.iter().any(|t| t.repeat != 0)), "tag-repeat", &mut labels);
    lab(s.slices.iter().any(|x| x.keys.iter().any(|k| k.x < 0 || k.y < 0)), "slice-negative-origin", &mut labels);
    lab(s.slices.iter().any(|x| x.flags & 1 != 0 && !x.keys.is_empty()), "slice-9", &mut labels);
    lab(s.slices.iter().any(|x| x.flags & 2 != 0 && !x.keys.is_empty()), "slice-pivot", &mut labels);
    lab(s.palette.as_ref().map_or(false, |p| p.entries.iter().any(|e| e.name.is_some())), "palette-named", &mut labels);
    lab(s.palette.as_ref().map_or(false, |p| p.first > 0), "palette-first>0", &mut labels);
    lab(s.palette.as_ref().map_or(false, |p| p.first > 255), "palette-first>255", &mut labels);
    lab(s.layers.iter().any(|l| !l.name.is_ascii()), "multibyte-name", &mut labels);
    lab(s.layers.iter().any(|l| l.name.is_empty()), "empty-name", &mut labels);
    lab(!s.ext_files.is_empty(), "ext-files", &mut labels);
    lab(s.tilesets.iter().any(|t| t.flags & 1 != 0), "tileset-ext-ref", &mut labels);
    lab(s.tilesets.iter().any(|t| t.base_index < 0), "tileset-negative-base", &mut labels);
    lab(s.legacy.is_some() && s.palette.is_none(), "legacy-only-palette", &mut labels);
    lab(s.frames.len() > 1000, "frames>1000", &mut labels);
    lab(s.tags.as_ref().map_or(false, |t| t.len() > 255) || s.slices.len() > 255 || s.ext_files.len() > 255 || s.slices.iter().any(|x| x.keys.len() > 255), "entity-count>255", &mut labels);
    lab(s.layers.len() > 250, "layers>250", &mut labels);
    lab(s.width > 4096 || s.height > 4096, "canvas>4096", &mut labels);
    {
        let mut n: Vec<&str> = s.layers.iter().map(|l| l.name.as_str()).collect();
        let len = n.len();
        n.sort();
        n.dedup();
        lab(n.len() < len, "duplicate-layer-names", &mut labels);
    }
    if plan.shuffle {
        labels.push("plan-shuffle".into());
    }
    if plan.ignorable > 0 {
        labels.push("plan-ignorable".into());
    }
    if plan.pad > 0 {
        labels.push("plan-padding".into());
    }
    labels.push(format!("fmt-{:?}", s.fmt));
    let mut o = Outcome::new(entities && nondefault, hash_bytes(&enc.bytes));
    o.labels = labels;
    o.sample = Some(json!({"model": summarize(&s), "plan": format!("{:?}", plan), "file_bytes": enc.bytes.len()}));
    Ok(o)
}

pub fn run(run: &mut Run) {
    run.rule = "cases: (sprite model, encoding plan) built from a proptest tape, encoded by the harness writer and loaded through AsepriteFile::read; oracle: every structural accessor equals the model's projection. non-trivial: >=2 layers or >=1 tag/slice/palette/external file/tileset AND at least one attribute outside the GUI-corpus defaults (see labels); distinct by 64-bit hash of the encoded file".into();
    run.assumptions = vec!["the harness encoder follows the published Aseprite file specification".into(), "layer flags: only the 7 defined bits are compared".into()];
    let (lanes, cases) = if run.thorough() { (16, 40000) } else { (16, 1500) };
    run_tapes(run, lanes, cases, 1500, &check);
    // thorough only: coverage-guided search over generator tapes with the same oracle
    crate::fuzzstage::fuzz_tapes(run, 1500, 120);
}

pub fn replay(case: &serde_json::Value) -> CheckResult {
    let tape = tape_from_case(case).ok_or_else(|| Failure::new("bad-replay", "no tape in replay file"))?;
    check_guarded(|| check(&tape))
}
