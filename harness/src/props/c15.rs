//! C15 — documented-unsupported features are refused (every position enumerated).
use crate::encode::*;
use crate::gen::{build_plan, build_sprite, GenCfg, Tape};
use crate::model::*;
use crate::runner::*;
use asefile::AsepriteFile;
use serde_json::json;

pub fn cfg() -> GenCfg {
    let mut c = GenCfg::full();
    c.canvas_typ = 10;
    c.max_cel = 6;
    c.tile_aligned = false;
    c.scale = false; // per-position / per-offset enumeration: keep the files small
    c
}

fn loads(b: &[u8]) -> Result<bool, (String, String)> {
    guarded(|| AsepriteFile::read(b).is_ok())
}

/// All variants of one base: (feature, position description, bytes)
fn variants(s: &Sprite, plan: &Plan, enc: &Encoded, t: &mut Tape) -> Vec<(&'static str, String, Vec<u8>)> {
    let mut v = vec![];
    let patched = |f: &Field, val: u64| {
        let mut b = enc.bytes.clone();
        patch(&mut b, f, val);
        b
    };
    // pixel ratio
    let pw = enc.fields.iter().find(|f| f.name == "pixel_w").unwrap();
    let ph = enc.fields.iter().find(|f| f.name == "pixel_h").unwrap();
    for (a, b2) in [(1u8, 2u8), (2, 1), (2, 2), (255, 255), (1, 255), (3, 7), (1 + t.below(255) as u8, 2 + t.below(254) as u8)] {
        let mut b = enc.bytes.clone();
        patch(&mut b, pw, a as u64);
        patch(&mut b, ph, b2 as u64);
        v.push(("pixel-ratio", format!("{}:{}", a, b2), b));
    }
    // colour depth
    let fd = enc.fields.iter().find(|f| f.name == "depth").unwrap();
    for d in [0u64, 1, 4, 7, 9, 15, 17, 24, 31, 33, 64, 0xFFFF, t.raw() as u64 & 0xFFFF] {
        if d != 8 && d != 16 && d != 32 {
            v.push(("colour-depth", format!("{}", d), patched(fd, d)));
        }
    }
    // enum fields
    for f in &enc.fields {
        match f.name.as_str() {
            "layer_type" => {
                for val in [3u64, 4, 255, 0xFFFF, 3 + (t.raw() as u64 % 0xFFFC)] {
                    v.push(("layer-type", format!("@{}={}", f.off, val), patched(f, val)));
                }
            }
            "layer_blend" => {
                for val in [19u64, 20, 255, 0xFFFF, 19 + (t.raw() as u64 % 0xFFEC)] {
                    v.push(("blend-mode", format!("@{}={}", f.off, val), patched(f, val)));
                    // the same with the header's "layer opacity is valid" flag clear: an unknown blend mode stays unknown
                    let mut b2 = patched(f, val);
                    b2[14..18].copy_from_slice(&[0u32, 2][(val % 2) as usize].to_le_bytes());
                    v.push(("blend-mode", format!("@{}={} header flags {}", f.off, val, val % 2 * 2), b2));
                }
            }
            "cel_type" => {
                for val in [4u64, 5, 255, 0xFFFF, 4 + (t.raw() as u64 % 0xFFFB)] {
                    v.push(("cel-type", format!("@{}={}", f.off, val), patched(f, val)));
                }
            }
            "tag_dir" => {
                for val in [3u64, 4, 128, 255, 3 + (t.raw() as u64 % 253)] {
                    v.push(("animation-direction", format!("@{}={}", f.off, val), patched(f, val)));
                }
            }
            "tm_bits" => {
                for val in [0u64, 1, 4, 8, 12, 16, 24, 31, 33, 40, 48, 64, 128, 0xFFFF] {
                    v.push(("bits-per-tile", format!("@{}={}", f.off, val), patched(f, val)));
                }
            }
            _ => {}
        }
    }
    // a tilemap cel that stores no tiles at all (width or height 0) still declares its bits per tile
    for (fi, fr) in s.frames.iter().enumerate() {
        for (ci, c) in fr.cels.iter().enumerate() {
            if let CelContent::Tilemap { .. } = &c.content {
                for (zw, zh) in [(0u16, 1u16), (1, 0), (0, 0)] {
                    let mut base = s.clone();
                    if let CelContent::Tilemap { w, h, tiles, .. } = &mut base.frames[fi].cels[ci].content {
                        *w = zw;
                        *h = zh;
                        tiles.clear();
                    }
                    // only meaningful if the empty tilemap itself is accepted with 32 bits per tile
                    if !matches!(loads(&encode(&base, plan).bytes), Ok(true)) {
                        continue;
                    }
                    for bits in [0u16, 8, 16, 64] {
                        let mut v2 = base.clone();
                        if let CelContent::Tilemap { bits: b, .. } = &mut v2.frames[fi].cels[ci].content {
                            *b = bits;
                        }
                        v.push(("bits-per-tile", format!("empty {}x{} tilemap in frame {} bits={}", zw, zh, fi, bits), encode(&v2, plan).bytes));
                    }
                }
            }
        }
    }
    // tilesets without embedded pixels: re-encode the model with the flag cleared
    for (i, ts) in s.tilesets.iter().enumerate() {
        for flags in [ts.flags & !2, (ts.flags & !2) | 1, 0, 1, 4, 5] {
            if flags & 2 != 0 {
                continue;
            }
            let mut s2 = s.clone();
            s2.tilesets[i].flags = flags;
            v.push(("tileset-not-embedded", format!("tileset#{} flags={}", i, flags), encode(&s2, plan).bytes));
        }
    }
    // an additional, unreferenced tileset that lives in an external file only, declaring 0, 1 or 5 tiles
    {
        let pieces = super::robust::to_pieces(enc);
        for count in [0u32, 1, 5] {
            let ext = Tileset { id: 9000 + count, flags: 1, count, tw: 4, th: 4, base_index: 1, name: "external".into(), ext: (1, 1), pixels: vec![] };
            let c = finish_chunk(tileset_chunk(&ext, 6, &mut None), 0, &mut Rng(1)).bytes;
            for pos in [0usize, pieces.frames[0].1.len()] {
                let mut p = pieces.clone();
                p.frames[0].1.insert(pos, c.clone());
                v.push(("tileset-not-embedded", format!("extra external-only tileset with {} tiles at chunk position {}", count, pos), super::robust::assemble(&p, true)));
            }
        }
    }
    // a second Tileset chunk that re-defines an existing id as external-only (no embedded pixels), right after the
    // original and at the end of the first frame
    if !s.tilesets.is_empty() {
        let pieces = super::robust::to_pieces(enc);
        for (ti, ts) in s.tilesets.iter().enumerate().take(3) {
            let mut ext = ts.clone();
            ext.flags = 1;
            ext.ext = (1, 1);
            ext.pixels = vec![];
            let c = finish_chunk(tileset_chunk(&ext, 6, &mut None), 0, &mut Rng(1)).bytes;
            let first = &pieces.frames[0].1;
            let after = first.iter().enumerate().filter(|(_, ch)| ch.len() >= 10 && ch[4..6] == 0x2023u16.to_le_bytes() && ch[6..10] == ts.id.to_le_bytes()).map(|(i, _)| i + 1).next();
            for pos in [after, Some(first.len())].into_iter().flatten() {
                let mut p = pieces.clone();
                p.frames[0].1.insert(pos, c.clone());
                v.push(("tileset-not-embedded", format!("tileset#{} (id {}) re-defined as external-only at chunk position {}", ti, ts.id, pos), super::robust::assemble(&p, true)));
            }
        }
    }
    // colour profile chunk: ICC, or any type with the fixed-gamma flag, at every chunk position
    let pieces = super::robust::to_pieces(enc);
    // a Tags chunk carrying an unknown direction in a frame after the first (where a reader may ignore tags)
    for fi in 1..pieces.frames.len() {
        for dir in [3u8, 255] {
            let mut p = pieces.clone();
            let tg = vec![Tag { from: 0, to: 0, dir: 0, repeat: 0, name: "ok".into() }, Tag { from: 0, to: 0, dir, repeat: 0, name: "late".into() }];
            let c = finish_chunk(tags_chunk(&tg, &mut None), 0, &mut Rng(1)).bytes;
            let pos = (fi * 7 + dir as usize) % (p.frames[fi].1.len() + 1);
            p.frames[fi].1.insert(pos, c);
            v.push(("animation-direction", format!("tags chunk in frame {} position {} direction {}", fi, pos, dir), super::robust::assemble(&p, true)));
        }
    }
    for (fi, (_, chunks)) in pieces.frames.iter().enumerate() {
        for pos in 0..=chunks.len() {
            // a chunk placed between an entity and its user data would also be "ignorable" - fine
            for (k, (ptype, flags)) in [(2u16, 0u16), (0, 1), (1, 1), (2, 1), (1, 0xFFFF), (0, 3)].into_iter().enumerate() {
                let mut p = pieces.clone();
                // the gamma field takes the values a writer might plausibly leave there: 0, 1.0, 2.2, all ones
                let gamma = [0x0001_0000u32, 0, 0x0002_3333, 0xFFFF_FFFF, 0x0001_0000, 0x0000_8000][(k + pos + fi) % 6];
                let c = finish_chunk(color_profile_chunk(ptype, flags, gamma), 0, &mut Rng(1)).bytes;
                p.frames[fi].1.insert(pos, c);
                v.push((if ptype == 2 && flags & 1 == 0 { "icc-profile" } else { "fixed-gamma" }, format!("frame {} chunk position {} type {} flags {}", fi, pos, ptype, flags), super::robust::assemble(&p, true)));
            }
        }
    }
    v
}

pub fn check(tape: &[u32]) -> CheckResult {
    let mut t = Tape::new(tape);
    let s = build_sprite(&mut t, &cfg());
    let mut plan = build_plan(&mut t);
    plan.ratio = 0;
    let enc = encode(&s, &plan);
    match loads(&enc.bytes) {
        Ok(true) => {}
        Ok(false) => return Err(Failure::new("base-not-loadable", "well-formed base failed to load").with(json!({"hex": hex(&enc.bytes[..enc.bytes.len().min(6000)])}))),
        Err((loc, msg)) => return Err(Failure::new(format!("panic:{}", short_loc(&loc)), msg)),
    }
    let mut vars = variants(&s, &plan, &enc, &mut t);
    // a sample of the variants once more with 1100 empty (ignored) chunks put in front of the first frame's chunks,
    // so that the offending chunk is far down a long frame
    {
        let filler: Vec<u8> = {
            let mut c = vec![];
            c.extend_from_slice(&6u32.to_le_bytes());
            c.extend_from_slice(&0x2017u16.to_le_bytes());
            c
        };
        let nfill = 1100usize;
        let deep = |b: &[u8]| -> Option<Vec<u8>> {
            if b.len() < 144 {
                return None;
            }
            let fsz = u32::from_le_bytes([b[128], b[129], b[130], b[131]]) as usize;
            let old = u16::from_le_bytes([b[134], b[135]]) as usize;
            let new = u32::from_le_bytes([b[140], b[141], b[142], b[143]]) as usize;
            let n = if new != 0 { new } else { old };
            if fsz < 16 || 128 + fsz > b.len() || n + nfill >= 0xFFFF {
                return None;
            }
            let mut o = b[..144].to_vec();
            for _ in 0..nfill {
                o.extend_from_slice(&filler);
            }
            o.extend_from_slice(&b[144..]);
            o[128..132].copy_from_slice(&((fsz + nfill * 6) as u32).to_le_bytes());
            o[134..136].copy_from_slice(&((n + nfill) as u16).to_le_bytes());
            o[140..144].copy_from_slice(&((n + nfill) as u32).to_le_bytes());
            if u32::from_le_bytes([b[0], b[1], b[2], b[3]]) as usize == b.len() {
                let l = o.len() as u32;
                o[0..4].copy_from_slice(&l.to_le_bytes());
            }
            Some(o)
        };
        if let Some(db) = deep(&enc.bytes) {
            if let Ok(true) = loads(&db) {
                let step = (vars.len() / 12).max(1);
                let extra: Vec<_> = vars.iter().step_by(step).filter_map(|(f, p, b)| deep(b).map(|d| (*f, format!("{} [after {} filler chunks]", p, nfill), d))).collect();
                vars.extend(extra);
            }
        }
    }
    let mut o = Outcome::new(true, hash_bytes(&enc.bytes));
    let mut counts: std::collections::BTreeMap<&'static str, u64> = Default::default();
    for (feat, pos, b) in &vars {
        match loads(b) {
            Ok(false) => {}
            Ok(true) => {
                return Err(Failure::new(format!("accepted:{}", feat), format!("file using unsupported feature '{}' ({}) loaded instead of being refused", feat, pos)).with(json!({"feature": feat, "position": pos, "input_hex": if b.len() < 8000 { hex(b) } else { String::new() }, "model": super::c01::summarize(&s)})));
            }
            Err((loc, msg)) => {
                return Err(Failure::new(format!("panic:{}", short_loc(&loc)), format!("variant '{}' ({}) panicked: {}", feat, pos, msg)).with(json!({"input_hex": hex(&b[..b.len().min(8000)])})));
            }
        }
        *counts.entry(feat).or_insert(0) += 1;
    }
    for (k, n) in counts {
        o.labels.push(format!("feature:{}", k));
        o.counters.push((feature_counter(k), n));
    }
    o.counters.push(("variants", vars.len() as u64));
    o.sample = Some(json!({"model": super::c01::summarize(&s), "variants": vars.len(), "first_variants": vars.iter().take(6).map(|v| format!("{} {}", v.0, v.1)).collect::<Vec<_>>()}));
    Ok(o)
}

fn feature_counter(k: &str) -> &'static str {
    match k {
        "pixel-ratio" => "variants_pixel_ratio",
        "colour-depth" => "variants_colour_depth",
        "layer-type" => "variants_layer_type",
        "blend-mode" => "variants_blend_mode",
        "cel-type" => "variants_cel_type",
        "animation-direction" => "variants_animation_direction",
        "bits-per-tile" => "variants_bits_per_tile",
        "tileset-not-embedded" => "variants_tileset_not_embedded",
        "icc-profile" => "variants_icc_profile",
        _ => "variants_fixed_gamma",
    }
}

pub fn run(run: &mut Run) {
    run.rule = "cases: a well-formed base sprite (proptest tape) that loads, and every way of switching on one unsupported feature at every position where it can occur: pixel ratio a:b (a,b>=1, not 1:1), colour depth outside {8,16,32}, each layer's type >= 3, each layer's blend mode >= 19, each cel's type >= 4, each tag's direction >= 3, bits-per-tile != 32 in each tilemap cel, each tileset with the embedded-pixels flag cleared (with/without external link), an ICC colour-profile chunk or any colour-profile chunk with the fixed-gamma flag inserted at every chunk position of every frame. Oracle: base loads, every variant returns Err. A case is one base with all its variants; non-trivial: every case (base loads and each variant differs in exactly that feature); a feature class with zero variants over the whole run is a harness fault".into();
    let (lanes, cases) = if run.thorough() { (16, 8000) } else { (16, 400) };
    run_tapes(run, lanes, cases, 1200, &check);
    // thorough only: coverage-guided search over generator tapes with the same oracle
    crate::fuzzstage::fuzz_tapes(run, 1200, 120);
    let need = ["variants_pixel_ratio", "variants_colour_depth", "variants_layer_type", "variants_blend_mode", "variants_cel_type", "variants_animation_direction", "variants_bits_per_tile", "variants_tileset_not_embedded", "variants_icc_profile", "variants_fixed_gamma"];
    if run.violations.is_empty() {
        for k in need {
            if run.stats.counters.get(k).copied().unwrap_or(0) == 0 {
                run.inconclusive = Some(format!("no variants generated for {}", k));
            }
        }
    }
}

pub fn replay(case: &serde_json::Value) -> CheckResult {
    let tape = tape_from_case(case).ok_or_else(|| Failure::new("bad-replay", "no tape in replay file"))?;
    check_guarded(|| check(&tape))
}
