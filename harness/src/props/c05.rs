//! C05 — a sprite that loads is fully usable.
use super::robust::*;
use crate::runner::*;

pub fn run(run: &mut Run) {
    run.rule = "inputs: the C04 corpus (hostile tapes, exhaustive field sweeps, truncations, stress shapes); every input that loads is followed by exercise(): every public accessor with in-range arguments (frames x layers sampled above 24x48, tile lookups on the grid and at extreme coordinates, tile/tileset/tilemap/cel/frame images, Debug) in a seeded permuted order with repetitions, under the work guard. Oracle: no panic, no process death, documented image dimensions. non-trivial: the input loaded AND (it is not an unmodified well-formed encoding, or it contains a tilemap or indexed cel); distinct by content hash".into();
    run.assumptions = vec!["work guard: rendering skipped above 2^22 canvas pixels / 2^24 tilemap pixel work; Debug skipped above 2^20 stored pixels (counted as skipped_heavy)".into(), "out-of-range arguments are never used (documented panics)".into()];
    campaign(run, Focus::C05);
    let loaded = run.stats.counters.get("loaded").copied().unwrap_or(0);
    run.extra.insert("loaded_over_generated".into(), serde_json::json!(format!("{}/{}", loaded, run.stats.evaluations)));
}

pub fn replay(case: &serde_json::Value) -> CheckResult {
    replay_bytes(Focus::C05, case)
}
