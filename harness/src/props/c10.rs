//! C10 — user data attaches to the entity it follows (exhaustive chunk words + state-machine model).
use crate::encode::*;
use crate::gen::Tape;
use crate::model::*;
use crate::observe::{ud, Ud};
use crate::runner::*;
use asefile::AsepriteFile;
use serde_json::json;

#[derive(Clone, Copy, Debug, PartialEq, Eq, Hash)]
pub enum Sym {
    L,
    /// cel in the lowest layer that has no cel in the current frame
    C,
    /// cel in the highest layer that has no cel in the current frame (cel chunks out of layer order)
    Ch,
    S,
    T(u8),
    P4,
    P11,
    N,
    I,
    U,
    F,
}

const ALPHABET: [Sym; 14] = [Sym::L, Sym::C, Sym::Ch, Sym::S, Sym::T(0), Sym::T(1), Sym::T(2), Sym::T(3), Sym::P4, Sym::P11, Sym::N, Sym::I, Sym::U, Sym::F];

#[derive(Clone, Copy, Debug, PartialEq)]
enum Ctx {
    None,
    Layer(usize),
    Cel(usize, usize),
    Slice(usize),
    Sprite,
    Tag(usize, usize),
}

/// Model state while scanning a word (written from the property statement).
#[derive(Clone, Debug)]
pub struct State {
    ctx: Ctx,
    layers: Vec<Option<usize>>,      // user data record position per layer
    cels: Vec<Vec<Option<Option<usize>>>>, // per frame, per layer: None = no cel, Some(rec)
    slices: Vec<Option<usize>>,
    /// all tags of all tags chunks in file order: (chunk number, record position)
    tags: Vec<(usize, Option<usize>)>,
    tag_chunks: usize,
    sprite: Option<usize>,
    frame: usize,
}

impl State {
    pub fn new() -> State {
        State { ctx: Ctx::None, layers: vec![], cels: vec![vec![]], slices: vec![], tags: vec![], tag_chunks: 0, sprite: None, frame: 0 }
    }
    /// applies a symbol at word position pos; returns false when the word becomes invalid
    pub fn step(&mut self, sym: Sym, pos: usize) -> bool {
        match sym {
            Sym::L => {
                if self.frame != 0 {
                    return false;
                }
                self.layers.push(None);
                self.ctx = Ctx::Layer(self.layers.len() - 1);
            }
            Sym::C | Sym::Ch => {
                // the cel goes to the lowest (C) / highest (Ch) layer without a cel in this frame
                let row = &mut self.cels[self.frame];
                while row.len() < self.layers.len() {
                    row.push(None);
                }
                let free = if sym == Sym::C { row.iter().position(|c| c.is_none()) } else { row.iter().rposition(|c| c.is_none()) };
                // Ch is only a distinct symbol when it differs from C
                if sym == Sym::Ch && free == row.iter().position(|c| c.is_none()) {
                    return false;
                }
                match free {
                    Some(l) => {
                        row[l] = Some(None);
                        self.ctx = Ctx::Cel(self.frame, l);
                    }
                    None => return false,
                }
            }
            Sym::S => {
                self.slices.push(None);
                self.ctx = Ctx::Slice(self.slices.len() - 1);
            }
            Sym::T(n) => {
                // any number of tags chunks, all in the first frame (at most three per word keeps the
                // enumeration small)
                if self.frame != 0 || self.tag_chunks >= 3 {
                    return false;
                }
                let base = self.tags.len();
                for _ in 0..n {
                    self.tags.push((self.tag_chunks, None));
                }
                self.tag_chunks += 1;
                self.ctx = Ctx::Tag(base, base + n as usize);
            }
            Sym::P4 | Sym::P11 => self.ctx = Ctx::Sprite,
            Sym::N | Sym::I => {}
            Sym::F => {
                self.frame += 1;
                self.cels.push(vec![]);
            }
            Sym::U => match self.ctx {
                Ctx::None => return false,
                Ctx::Layer(i) => {
                    if self.layers[i].is_some() {
                        return false;
                    }
                    self.layers[i] = Some(pos);
                }
                Ctx::Cel(f, l) => {
                    if self.cels[f][l].unwrap().is_some() {
                        return false;
                    }
                    self.cels[f][l] = Some(Some(pos));
                }
                Ctx::Slice(i) => {
                    if self.slices[i].is_some() {
                        return false;
                    }
                    self.slices[i] = Some(pos);
                }
                Ctx::Sprite => {
                    if self.sprite.is_some() {
                        return false;
                    }
                    self.sprite = Some(pos);
                }
                Ctx::Tag(k, n) => {
                    if k >= n {
                        return false;
                    }
                    self.tags[k].1 = Some(pos);
                    self.ctx = Ctx::Tag(k + 1, n);
                }
            },
        }
        true
    }
}

fn record(seed: u64, pos: usize) -> UserData {
    let h = mix(seed, pos as u64 + 77);
    let fl = h % 4;
    UserData { text: if fl & 1 != 0 { Some(format!("u{}-{}", pos, h % 1000)) } else { None }, color: if fl & 2 != 0 { Some([pos as u8, (h >> 8) as u8, (h >> 16) as u8, (h >> 24) as u8]) } else { None } }
}

fn want(seed: u64, rec: Option<usize>) -> Ud {
    rec.map(|p| {
        let r = record(seed, p);
        (r.text, r.color)
    })
}

pub fn build_file(word: &[Sym], seed: u64) -> Option<(Vec<u8>, State)> {
    let mut st = State::new();
    let mut frames: Vec<Vec<Vec<u8>>> = vec![vec![]];
    let mut rng = Rng(mix(seed, 5));
    let fin = |w: W, rng: &mut Rng| finish_chunk(w, 0, rng).bytes;
    for (pos, sym) in word.iter().enumerate() {
        if !st.step(*sym, pos) {
            return None;
        }
        let cur = frames.len() - 1;
        match sym {
            // every fourth layer (by seed and position) is a group layer: cels and records on it are attached like any
            // other (the file format lets a cel chunk name any layer)
            Sym::L => frames[cur].push(fin(layer_chunk(&Layer { flags: 3, kind: if mix(seed, pos as u64 + 4242) % 4 == 0 { LayerKind::Group } else { LayerKind::Image }, level: 0, blend: 0, opacity: 255, name: format!("l{}", pos), user_data: None }, &mut None), &mut rng)),
            Sym::C | Sym::Ch => {
                let l = match st.ctx {
                    Ctx::Cel(_, l) => l,
                    _ => unreachable!(),
                };
                let cel = Cel { layer: l as u16, x: 0, y: 0, opacity: 255, content: CelContent::Image { w: 1, h: 1, pixels: vec![1, 2, 3, 255] }, user_data: None };
                frames[cur].push(fin(cel_chunk(&cel, if mix(seed, pos as u64) & 1 == 0 { None } else { Some(6) }, &mut None), &mut rng));
            }
            Sym::S => frames[cur].push(fin(slice_chunk(&Slice { name: format!("s{}", pos), flags: 0, keys: vec![], user_data: None }, &mut None), &mut rng)),
            Sym::T(n) => {
                let chunk_no = st.tag_chunks - 1;
                let tags: Vec<Tag> = (0..*n).map(|i| Tag { from: 0, to: 0, dir: 0, repeat: 0, name: format!("t{}_{}", chunk_no, i) }).collect();
                frames[cur].push(fin(tags_chunk(&tags, &mut None), &mut rng));
            }
            Sym::P4 => frames[cur].push(fin(legacy_chunk(&LegacyPalette { kind: 4, packets: vec![LegacyPacket { skip: 0, colors: vec![[1, 2, 3]] }] }), &mut rng)),
            Sym::P11 => frames[cur].push(fin(legacy_chunk(&LegacyPalette { kind: 0x11, packets: vec![LegacyPacket { skip: 0, colors: vec![[1, 2, 3]] }] }), &mut rng)),
            Sym::N => frames[cur].push(fin(palette_chunk(&NewPalette { first: 0, entries: vec![PalEntry { rgba: [9, 9, 9, 255], name: None }] }, &mut None), &mut rng)),
            Sym::I => {
                let w = match mix(seed, pos as u64 + 1000) % 5 {
                    0 => {
                        let mut w = W::new(0x2006);
                        w.u32(Kind::Flags, "f", 0);
                        w.reserved(32, &mut None);
                        w
                    }
                    1 => {
                        let mut w = W::new(0x2016);
                        w.reserved(16, &mut None);
                        w.string("n", "");
                        w
                    }
                    2 => W::new(0x2017),
                    3 => color_profile_chunk(0, 0, 0),
                    _ => color_profile_chunk(1, 0, 0),
                };
                frames[cur].push(fin(w, &mut rng));
            }
            Sym::U => {
                let r = record(seed, pos);
                let mut w = W::new(0x2020);
                let flags = (r.text.is_some() as u32) | ((r.color.is_some() as u32) << 1);
                w.u32(Kind::Flags, "ud_flags", flags);
                if let Some(t) = &r.text {
                    w.string("t", t);
                }
                if let Some(c) = &r.color {
                    w.bytes(Kind::Value, "c", c);
                }
                frames[cur].push(fin(w, &mut rng));
            }
            Sym::F => frames.push(vec![]),
        }
    }
    let mut bytes = vec![0u8; 128];
    bytes[4..6].copy_from_slice(&0xA5E0u16.to_le_bytes());
    bytes[6..8].copy_from_slice(&(frames.len() as u16).to_le_bytes());
    bytes[8..10].copy_from_slice(&2u16.to_le_bytes());
    bytes[10..12].copy_from_slice(&2u16.to_le_bytes());
    bytes[12..14].copy_from_slice(&32u16.to_le_bytes());
    bytes[14..18].copy_from_slice(&1u32.to_le_bytes());
    for chunks in &frames {
        let body: usize = chunks.iter().map(|c| c.len()).sum();
        bytes.extend_from_slice(&((16 + body) as u32).to_le_bytes());
        bytes.extend_from_slice(&0xF1FAu16.to_le_bytes());
        bytes.extend_from_slice(&(chunks.len() as u16).to_le_bytes());
        bytes.extend_from_slice(&100u16.to_le_bytes());
        bytes.extend_from_slice(&[0, 0]);
        bytes.extend_from_slice(&(chunks.len() as u32).to_le_bytes());
        for c in chunks {
            bytes.extend_from_slice(c);
        }
    }
    Some((bytes, st))
}

pub fn check_word(word: &[Sym], seed: u64) -> Option<CheckResult> {
    let (bytes, st) = build_file(word, seed)?;
    Some(check_guarded(|| {
        let wtxt = format!("{:?}", word);
        let detail = || json!({"word": wtxt, "seed": seed, "input_hex": hex(&bytes)});
        let f = AsepriteFile::read(&bytes[..]).map_err(|e| Failure::new("load-error", format!("valid word {} failed to load: {}", wtxt, e)).with(detail()))?;
        if f.num_layers() as usize != st.layers.len() || f.num_frames() as usize != st.cels.len() {
            return Err(Failure::new("structure", format!("layers/frames {}x{} vs model {}x{}", f.num_layers(), f.num_frames(), st.layers.len(), st.cels.len())).with(detail()));
        }
        for (i, rec) in st.layers.iter().enumerate() {
            let got = ud(f.layer(i as u32).user_data());
            if got != want(seed, *rec) {
                return Err(Failure::new("layer-user-data", format!("word {}: layer {} user data {:?}, expected {:?}", wtxt, i, got, want(seed, *rec))).with(detail()));
            }
        }
        for (fi, row) in st.cels.iter().enumerate() {
            for li in 0..st.layers.len() {
                let rec = row.get(li).cloned().flatten().flatten();
                let got = ud(f.cel(fi as u32, li as u32).user_data());
                if got != want(seed, rec) {
                    return Err(Failure::new("cel-user-data", format!("word {}: cel({},{}) user data {:?}, expected {:?}", wtxt, fi, li, got, want(seed, rec))).with(detail()));
                }
            }
        }
        if f.slices().len() != st.slices.len() {
            return Err(Failure::new("structure", "slice count").with(detail()));
        }
        for (i, rec) in st.slices.iter().enumerate() {
            let got = ud(f.slices()[i].user_data.as_ref());
            if got != want(seed, *rec) {
                return Err(Failure::new("slice-user-data", format!("word {}: slice {} user data {:?}, expected {:?}", wtxt, i, got, want(seed, *rec))).with(detail()));
            }
        }
        // tags are identified by name ("t<chunk>_<index>"). With one tags chunk exactly its tags are reported. With
        // several, a reader may keep all of them or only those of the last chunk (the format says nothing and the
        // statement does not either); every tag that IS reported carries the record that followed its own chunk at
        // its own position, and the last chunk's tags are always there.
        let mut names: Vec<String> = vec![];
        let mut counters = vec![0usize; st.tag_chunks];
        for (c, _) in &st.tags {
            names.push(format!("t{}_{}", c, counters[*c]));
            counters[*c] += 1;
        }
        let reported: Vec<String> = (0..f.num_tags()).map(|i| f.tag(i).name().to_string()).collect();
        if st.tag_chunks <= 1 && reported != names {
            return Err(Failure::new("structure", format!("word {}: tags reported {:?}, expected {:?}", wtxt, reported, names)).with(detail()));
        }
        for (k, nm) in names.iter().enumerate() {
            if st.tags[k].0 + 1 == st.tag_chunks && !reported.contains(nm) {
                return Err(Failure::new("structure", format!("word {}: tag {} of the last tags chunk is not reported ({:?})", wtxt, nm, reported)).with(detail()));
            }
        }
        for (i, nm) in reported.iter().enumerate() {
            let k = match names.iter().position(|x| x == nm) {
                Some(k) if reported.iter().filter(|x| *x == nm).count() == 1 => k,
                _ => return Err(Failure::new("structure", format!("word {}: reported tags {:?} are not a duplicate-free selection of {:?}", wtxt, reported, names)).with(detail())),
            };
            let got = ud(f.tag(i as u32).user_data());
            if got != want(seed, st.tags[k].1) {
                return Err(Failure::new("tag-user-data", format!("word {}: tag {} ({}) user data {:?}, expected {:?}", wtxt, i, nm, got, want(seed, st.tags[k].1))).with(detail()));
            }
        }
        let got = ud(f.sprite_user_data());
        if got != want(seed, st.sprite) {
            return Err(Failure::new("sprite-user-data", format!("word {}: sprite user data {:?}, expected {:?}", wtxt, got, want(seed, st.sprite))).with(detail()));
        }
        // non-triviality
        let nu = word.iter().filter(|s| **s == Sym::U).count();
        let mut kinds = std::collections::HashSet::new();
        for s in word {
            match s {
                Sym::L => kinds.insert(0),
                Sym::C | Sym::Ch => kinds.insert(1),
                Sym::S => kinds.insert(2),
                Sym::T(_) => kinds.insert(3),
                Sym::P4 | Sym::P11 => kinds.insert(4),
                _ => false,
            };
        }
        let mut ign_between = false;
        for i in 1..word.len() {
            if word[i] == Sym::U && matches!(word[i - 1], Sym::I | Sym::N | Sym::F) {
                ign_between = true;
            }
        }
        let nontrivial = nu >= 1 && (kinds.len() >= 2 || ign_between);
        let mut h = seed.wrapping_mul(31);
        for s in word {
            h = h.wrapping_mul(131).wrapping_add(match s {
                Sym::L => 1,
                Sym::C => 2,
                Sym::Ch => 14,
                Sym::S => 3,
                Sym::T(n) => 4 + *n as u64,
                Sym::P4 => 8,
                Sym::P11 => 9,
                Sym::N => 10,
                Sym::I => 11,
                Sym::U => 12,
                Sym::F => 13,
            });
        }
        let mut o = Outcome::new(nontrivial, h);
        if st.tag_chunks >= 2 {
            o.labels.push("several-tags-chunks".into());
        }
        if ign_between {
            o.labels.push("non-entity-chunk-before-record".into());
        }
        if word.contains(&Sym::F) && nu > 0 {
            o.labels.push("multi-frame".into());
        }
        if nontrivial {
            o.sample = Some(json!({"word": wtxt}));
        }
        o.counters.push(("user_data_records", nu as u64));
        Ok(o)
    }))
}

fn enumerate(maxlen: usize) -> Vec<Vec<Sym>> {
    // all valid words (validity is prefix-closed, so DFS with pruning)
    let mut out = vec![];
    fn rec(cur: &mut Vec<Sym>, st: &State, maxlen: usize, out: &mut Vec<Vec<Sym>>) {
        if !cur.is_empty() {
            out.push(cur.clone());
        }
        if cur.len() == maxlen {
            return;
        }
        for s in ALPHABET {
            let mut st2 = st.clone();
            if st2.step(s, cur.len()) {
                cur.push(s);
                rec(cur, &st2, maxlen, out);
                cur.pop();
            }
        }
    }
    rec(&mut vec![], &State::new(), maxlen, &mut out);
    out
}

fn random_word(tape: &[u32]) -> (Vec<Sym>, u64) {
    let mut t = Tape::new(tape);
    let seed = t.raw64();
    let n = 7 + t.below(54) as usize;
    let mut st = State::new();
    let mut w = vec![];
    for _ in 0..n {
        // pick a symbol; skip it if it would make the word invalid (construction, not rejection)
        let s = match t.below(16) {
            0 | 1 => Sym::L,
            2 | 3 => Sym::C,
            4 => Sym::Ch,
            5 => Sym::S,
            6 => Sym::T(t.below(4) as u8),
            7 => Sym::P4,
            8 => Sym::P11,
            9 => Sym::N,
            10 | 11 => Sym::I,
            12 | 13 | 14 => Sym::U,
            _ => Sym::F,
        };
        let mut st2 = st.clone();
        if st2.step(s, w.len()) {
            st = st2;
            w.push(s);
        }
    }
    (w, seed)
}

fn check_random(tape: &[u32]) -> CheckResult {
    let (w, seed) = random_word(tape);
    match check_word(&w, seed) {
        Some(r) => r.map(|o| o.label("random-long-word")),
        None => Err(Failure::new("harness", "random word invalid")),
    }
}

/// Second generator: whole well-formed sprites (all cel kinds incl. linked cels, conformant chunk
/// shuffles, ignorable chunks between an entity and its record); every entity's record must be the
/// model's and entities without one must report none.
fn check_sprite(tape: &[u32]) -> CheckResult {
    use crate::gen::{build_plan, build_sprite, GenCfg};
    let mut t = Tape::new(tape);
    let mut c = GenCfg::full();
    c.canvas_typ = 8;
    c.max_cel = 4;
    c.tile_aligned = false;
    c.max_frames = 4;
    let mut s = build_sprite(&mut t, &c);
    if t.chance(1, 30) {
        // hundreds of tags, each with its own record (counters wider than 8 bits)
        let n = 256 + t.below(120) as usize;
        let tags = s.tags.get_or_insert_with(Vec::new);
        while tags.len() < n {
            let i = tags.len();
            tags.push(Tag { from: i as u16, to: i as u16, dir: 0, repeat: 0, name: format!("t{}", i) });
        }
        let k = n - t.below(3) as usize;
        while s.tag_user_data.len() < k {
            let i = s.tag_user_data.len();
            s.tag_user_data.push(UserData { text: Some(format!("tag-record-{}", i)), color: None });
        }
    }
    let plan = build_plan(&mut t);
    let enc = encode(&s, &plan);
    let detail = || json!({"model": super::c01::summarize(&s), "plan": format!("{:?}", plan), "input_hex": if enc.bytes.len() < 8000 { hex(&enc.bytes) } else { String::new() }});
    let f = AsepriteFile::read(&enc.bytes[..]).map_err(|e| Failure::new("load-error", format!("well-formed file failed to load: {}", e)).with(detail()))?;
    let m = |u: &Option<UserData>| -> Ud { u.as_ref().map(|u| (u.text.clone(), u.color)) };
    let mut records = 0u64;
    let mut linked_with = false;
    for (i, l) in s.layers.iter().enumerate() {
        let got = ud(f.layer(i as u32).user_data());
        if got != m(&l.user_data) {
            return Err(Failure::new("layer-user-data", format!("layer {} user data {:?}, expected {:?}", i, got, m(&l.user_data))).with(detail()));
        }
        records += l.user_data.is_some() as u64;
    }
    for fi in 0..s.frames.len() {
        for li in 0..s.layers.len() {
            let want = s.cel(fi, li).map(|c| m(&c.user_data)).unwrap_or(None);
            let got = ud(f.cel(fi as u32, li as u32).user_data());
            if got != want {
                let kind = s.cel(fi, li).map(|c| match c.content { CelContent::Link { frame } => format!("linked to frame {}", frame), CelContent::Image { .. } => "image".into(), CelContent::Tilemap { .. } => "tilemap".into() });
                return Err(Failure::new("cel-user-data", format!("cel({},{}) [{:?}] user data {:?}, expected {:?}", fi, li, kind, got, want)).with(detail()));
            }
            if let Some(c) = s.cel(fi, li) {
                records += c.user_data.is_some() as u64;
                if let CelContent::Link { frame } = c.content {
                    let tgt = s.cel(frame as usize, li).map(|t| m(&t.user_data)).unwrap_or(None);
                    if tgt != want {
                        linked_with = true;
                    }
                }
            }
        }
    }
    if f.slices().len() != s.slices.len() {
        return Err(Failure::new("slice-count", format!("{} slices reported, {} slice chunks in the file", f.slices().len(), s.slices.len())).with(detail()));
    }
    for (i, sl) in s.slices.iter().enumerate() {
        let got = ud(f.slices()[i].user_data.as_ref());
        if got != m(&sl.user_data) {
            return Err(Failure::new("slice-user-data", format!("slice {} user data {:?}, expected {:?}", i, got, m(&sl.user_data))).with(detail()));
        }
        records += sl.user_data.is_some() as u64;
    }
    let ntags = s.tags.as_ref().map_or(0, |t| t.len());
    for i in 0..ntags {
        let want = s.tag_user_data.get(i).map(|u| (u.text.clone(), u.color));
        let got = ud(f.tag(i as u32).user_data());
        if got != want {
            return Err(Failure::new("tag-user-data", format!("tag {} user data {:?}, expected {:?}", i, got, want)).with(detail()));
        }
    }
    records += s.tag_user_data.len() as u64;
    let want = if s.legacy.is_some() { m(&s.sprite_user_data) } else { None };
    let got = ud(f.sprite_user_data());
    if got != want {
        return Err(Failure::new("sprite-user-data", format!("sprite user data {:?}, expected {:?}", got, want)).with(detail()));
    }
    let mut o = Outcome::new(records >= 1 && (plan.ignorable > 0 || plan.shuffle || linked_with), hash_bytes(&enc.bytes));
    o.labels.push("whole-sprite".into());
    if linked_with {
        o.labels.push("linked-cel-record-differs-from-target".into());
    }
    o.counters.push(("user_data_records", records));
    o.sample = Some(json!({"whole_sprite": super::c01::summarize(&s), "records": records}));
    Ok(o)
}

fn parse_word(s: &str) -> Vec<Sym> {
    let mut v = vec![];
    for tok in s.trim_matches(|c| c == '[' || c == ']').split(", ") {
        v.push(match tok {
            "L" => Sym::L,
            "C" => Sym::C,
            "Ch" => Sym::Ch,
            "S" => Sym::S,
            "P4" => Sym::P4,
            "P11" => Sym::P11,
            "N" => Sym::N,
            "I" => Sym::I,
            "U" => Sym::U,
            "F" => Sym::F,
            t if t.starts_with("T(") => Sym::T(t[2..t.len() - 1].parse().unwrap_or(0)),
            _ => continue,
        });
    }
    v
}

pub fn run(run: &mut Run) {
    let maxlen = if run.thorough() { 7 } else { 6 };
    run.rule = format!("exhaustive: every word of length 1..={} over {{layer, cel (lowest free layer), cel (highest free layer: cel chunks out of layer order), slice, tags(0..3), legacy palette 0x0004, legacy palette 0x0011, new palette, ignorable, user-data, frame-break}} satisfying the statement's side conditions (record has an attachable predecessor, no entity gets two records, <= n records after tags(n), one tags chunk in frame 0, layers in frame 0, a cel's layer exists, one cel per frame x layer); record flavour (text/colour/both/neither) and ignorable kind drawn from the seed. Oracle: a context state machine written from the statement predicts the record of every layer, cel, slice, tag and the sprite (None for entities without one). Plus random words of length 7-60 from proptest tapes, plus whole generated sprites (all cel kinds incl. linked cels whose record differs from their target's, conformant chunk shuffles, ignorable chunks before records) checked record by record against the model. non-trivial: >= 1 record and (>= 2 entity kinds or a non-entity chunk directly before a record); distinct by (word, seed)", maxlen);
    run.exhaustive = Some(true);
    let words = enumerate(maxlen);
    let seed = run.seed;
    let results = par_chunks(
        16,
        words.len() as u64,
        || (Stats::default(), Vec::<Violation>::new()),
        |acc, i| {
            let w = &words[i as usize];
            let s = mix(seed, i);
            match check_word(w, s) {
                Some(Ok(o)) => acc.0.record(&o),
                Some(Err(f)) => {
                    acc.0.evaluations += 1;
                    if acc.1.len() < 2 {
                        acc.1.push(Violation { case: json!({"word": format!("{:?}", w), "seed": s}), failure: f });
                    }
                }
                None => {}
            }
        },
    );
    for (st, vs) in results {
        run.stats.merge(st);
        for v in vs {
            if run.is_known(&v.failure.signature) {
                continue;
            }
            if !run.violations.iter().any(|x| x.failure.signature == v.failure.signature) {
                run.violations.push(v);
            }
        }
    }
    run.extra.insert("exhaustive_words".into(), json!(words.len()));
    // more than 65536 layers: records on a few layers below and above the 16-bit boundary
    run.direct(|| json!({"wide_layers": 65540}), check_guarded(check_wide));
    let (lanes, n) = if run.thorough() { (16, 20000) } else { (16, 1500) };
    run_tapes(run, lanes, n, 300, &check_random);
    let n2 = if run.thorough() { 20000 } else { 2500 };
    run_tapes(run, lanes, n2, 1200, &check_sprite);
    // thorough only: coverage-guided search over generator tapes with the same oracle
    crate::fuzzstage::fuzz_tapes(run, 1200, 120);
}

/// A sprite with 65540 layers and user data on layers on both sides of the 16-bit boundary (and a cel record on a
/// high layer): every layer reports its own record and no other.
fn check_wide() -> CheckResult {
    let n = 65540usize;
    let mut s = Sprite::empty(1, 1, Fmt::Rgba);
    let with: [usize; 7] = [0, 4, 65534, 65535, 65536, 65537, 65539];
    for i in 0..n {
        let user_data = if with.contains(&i) { Some(UserData { text: Some(format!("record for layer {}", i)), color: if i % 2 == 0 { Some([i as u8, 2, 3, 4]) } else { None } }) } else { None };
        s.layers.push(Layer { flags: 1, kind: LayerKind::Image, level: 0, blend: 0, opacity: 255, name: String::new(), user_data });
    }
    s.frames[0].cels.push(Cel { layer: 65535, x: 0, y: 0, opacity: 255, content: CelContent::Image { w: 1, h: 1, pixels: vec![1, 2, 3, 255] }, user_data: Some(UserData { text: Some("cel record".into()), color: None }) });
    let enc = encode(&s, &Plan::plain());
    let f = AsepriteFile::read(&enc.bytes[..]).map_err(|e| Failure::new("load-error", format!("sprite with 65540 layers failed to load: {}", e)))?;
    let m = |u: &Option<UserData>| -> Ud { u.as_ref().map(|u| (u.text.clone(), u.color)) };
    for (i, l) in s.layers.iter().enumerate() {
        let got = ud(f.layer(i as u32).user_data());
        if got != m(&l.user_data) {
            return Err(Failure::new("layer-user-data", format!("65540-layer sprite: layer {} user data {:?}, expected {:?}", i, got, m(&l.user_data))));
        }
    }
    let got = ud(f.cel(0, 65535).user_data());
    if got != Some((Some("cel record".to_string()), None)) {
        return Err(Failure::new("cel-user-data", format!("65540-layer sprite: cel(0,65535) user data {:?}", got)));
    }
    if ud(f.sprite_user_data()).is_some() {
        return Err(Failure::new("sprite-user-data", "65540-layer sprite: the sprite reports a record it does not have"));
    }
    Ok(Outcome::new(true, 65540).label("layers>65536"))
}

pub fn replay(case: &serde_json::Value) -> CheckResult {
    if case.get("wide_layers").is_some() {
        return check_guarded(check_wide);
    }
    if let Some(t) = tape_from_case(case) {
        // a tape is either a random long word or a whole sprite; replay both oracles
        let a = check_guarded(|| check_random(&t));
        let b = check_guarded(|| check_sprite(&t));
        return match (a, b) {
            (Err(e), _) if e.signature != "harness" => Err(e),
            (_, Err(e)) => Err(e),
            (a, _) => a,
        };
    }
    let w = parse_word(case.get("word").and_then(|w| w.as_str()).unwrap_or(""));
    let seed = case.get("seed").and_then(|s| s.as_u64()).unwrap_or(0);
    check_word(&w, seed).unwrap_or_else(|| Err(Failure::new("bad-replay", "invalid word")))
}
