//! C18 — utilities (feature `utils`): extrude_border, PaletteMapper, to_indexed_image.
use crate::encode::{encode, Plan, Rng};
use crate::gen::Tape;
use crate::model::*;
use crate::runner::*;
use asefile::util::{extrude_border, to_indexed_image, MappingOptions, PaletteMapper};
use asefile::AsepriteFile;
use image::RgbaImage;
use serde_json::json;

fn gen_image(t: &mut Tape, colors: &[[u8; 3]]) -> RgbaImage {
    let (w, h) = match if t.chance(1, 40) { 9 } else { t.below(8) } {
        9 => (126 + t.below(80), 125 + t.below(80)),
        0 => (1, 1),
        1 => (1, 1 + t.below(40)),
        2 => (1 + t.below(40), 1),
        _ => (1 + t.below(40), 1 + t.below(40)),
    };
    let mode = t.below(4);
    let mut r = Rng(t.raw64());
    // a quarter of the images own a container with spare bytes after the last pixel (legal via from_raw)
    let slack = if t.chance(1, 4) { 4 * (1 + t.below(3 * w.max(1))) as usize } else { 0 };
    let mut raw = vec![0u8; (w * h * 4) as usize + slack];
    for (i, b) in raw.iter_mut().enumerate().skip((w * h * 4) as usize) {
        *b = 0xA0 ^ i as u8;
    }
    let mut img = RgbaImage::from_raw(w, h, raw).expect("from_raw");
    for p in img.pixels_mut() {
        let a = match mode {
            0 => 255,
            1 => [255u8, 255, 0, 254][(r.next() % 4) as usize],
            _ => r.next() as u8,
        };
        let rgb = if !colors.is_empty() && r.next() % 3 != 0 {
            let mut c = colors[(r.next() % colors.len() as u64) as usize];
            if r.next() % 8 == 0 {
                c[(r.next() % 3) as usize] ^= 1; // near miss
            }
            c
        } else {
            let v = r.next();
            [v as u8, (v >> 8) as u8, (v >> 16) as u8]
        };
        *p = image::Rgba([rgb[0], rgb[1], rgb[2], a]);
    }
    img
}

fn check_extrude(img: &RgbaImage) -> Result<(), Failure> {
    let (w, h) = img.dimensions();
    let out = extrude_border(img.clone());
    if out.dimensions() != (w + 2, h + 2) {
        return Err(Failure::new("extrude-dims", format!("extrude_border of {}x{} gives {:?}", w, h, out.dimensions())));
    }
    for y in 0..h + 2 {
        for x in 0..w + 2 {
            let sx = (x as i64 - 1).clamp(0, w as i64 - 1) as u32;
            let sy = (y as i64 - 1).clamp(0, h as i64 - 1) as u32;
            if out.get_pixel(x, y) != img.get_pixel(sx, sy) {
                return Err(Failure::new("extrude-pixel", format!("extrude_border({}x{}) pixel ({},{}) = {:?}, expected input ({},{}) = {:?}", w, h, x, y, out.get_pixel(x, y), sx, sy, img.get_pixel(sx, sy))));
            }
        }
    }
    Ok(())
}

pub fn check(tape: &[u32]) -> CheckResult {
    let mut t = Tape::new(tape);
    // palette obtained the only public way: by loading a file with a palette chunk
    let n = match t.below(5) {
        0 => 1 + t.below(4),
        1 => 250 + t.below(20),
        2 => 1 + t.below(600),
        _ => 2 + t.below(30),
    } as usize;
    let first = match t.below(5) {
        0 | 1 => 0,
        2 => t.below(300),
        3 => 250 + t.below(10),
        _ => 256 + t.below(100),
    };
    let mut r = Rng(t.raw64());
    let small_space = t.chance(1, 2);
    let mut entries: Vec<PalEntry> = (0..n)
        .map(|_| {
            let v = r.next();
            let rgb = if small_space { [(v % 3) as u8 * 100, ((v >> 8) % 3) as u8 * 100, 7] } else { [v as u8, (v >> 8) as u8, (v >> 16) as u8] };
            PalEntry { rgba: [rgb[0], rgb[1], rgb[2], [255u8, 255, 0, 100][(r.next() % 4) as usize]], name: None }
        })
        .collect();
    // extreme colours at extreme indices (all-ones / all-zeros words are what hand-rolled tables use as markers)
    if t.chance(1, 3) {
        let extreme = [[255u8, 255, 255], [0, 0, 0], [255, 255, 254], [254, 255, 255], [0, 0, 1], [255, 0, 0]];
        for id in [0u32, 1, 254, 255, 256, first, first + n as u32 - 1] {
            if id >= first && ((id - first) as usize) < entries.len() && t.chance(1, 2) {
                let c = extreme[t.below(extreme.len() as u32) as usize];
                entries[(id - first) as usize].rgba[..3].copy_from_slice(&c);
            }
        }
    }
    // duplicates crossing the 256 boundary
    if n > 3 && t.chance(1, 2) {
        let a = t.below(n as u32) as usize;
        let b = t.below(n as u32) as usize;
        let src = entries[a].rgba;
        entries[b].rgba[..3].copy_from_slice(&src[..3]);
    }
    let mut s = Sprite::empty(1, 1, Fmt::Rgba);
    // a quarter of the palettes come from an old-style palette chunk of 1-3 packets; packets that follow each other
    // without a skip overwrite the same indices (the palette the mapper is given is whatever the library decoded)
    let legacy = t.chance(1, 4);
    if legacy {
        let mut packets = vec![];
        let mut rest: &[PalEntry] = &entries[..entries.len().min(600)];
        let np = 1 + t.below(3) as usize;
        for k in 0..np {
            if rest.is_empty() {
                break;
            }
            let take = if k + 1 == np { rest.len().min(255) } else { (1 + t.below(rest.len().min(255) as u32) as usize).min(rest.len()) };
            let skip = if k == 0 { first.min(255) as u8 } else { t.pick(&[0u8, 0, 1, 3]) };
            packets.push(LegacyPacket { skip, colors: rest[..take].iter().map(|e| [e.rgba[0], e.rgba[1], e.rgba[2]]).collect() });
            rest = &rest[take..];
        }
        s.legacy = Some(LegacyPalette { kind: 4, packets });
    } else {
        s.palette = Some(NewPalette { first, entries: entries.clone() });
    }
    let enc = encode(&s, &Plan::plain());
    // a third of the new-style palettes are followed, in a second frame, by another palette chunk that covers only the
    // first half of the range with other colours and announces a smaller palette: whatever palette the reader ends up
    // with, the mapper has to agree with what ColorPalette::color reports
    let mut bytes = enc.bytes.clone();
    if !legacy && entries.len() >= 4 && t.chance(1, 3) {
        let half: Vec<PalEntry> = entries[..entries.len() / 2].iter().map(|e| PalEntry { rgba: [e.rgba[0] ^ 0x55, e.rgba[1], e.rgba[2].wrapping_add(9), e.rgba[3]], name: None }).collect();
        let c2 = crate::encode::finish_chunk(crate::encode::palette_chunk(&NewPalette { first, entries: half }, &mut None), 0, &mut Rng(1)).bytes;
        let mut p = super::robust::to_pieces(&enc);
        let hdr = p.frames[0].0.clone();
        p.frames.push((hdr, vec![c2]));
        bytes = super::robust::assemble(&p, true);
    }
    let f = AsepriteFile::read(&bytes[..]).map_err(|e| Failure::new("load-error", format!("palette file failed to load: {}", e)))?;
    let pal = f.palette().ok_or_else(|| Failure::new("load-error", "no palette"))?;
    let failure = t.u8_biased();
    let transparent = if t.chance(1, 2) { Some(t.u8_biased()) } else { None };
    let mapper = PaletteMapper::new(pal, MappingOptions { failure, transparent });
    // the palette as the library reports it, entry by entry (C11 decides whether that is what the file says)
    let by_id: Vec<(u32, [u8; 3])> = (0..first + n as u32 + 800).filter_map(|id| pal.color(id).map(|e| (id, [e.red(), e.green(), e.blue()]))).collect();
    if by_id.len() != pal.num_colors() as usize && !legacy {
        return Err(Failure::new("palette-enumeration", format!("palette reports {} colours but color(id) is Some for {} ids below {}", pal.num_colors(), by_id.len(), first + n as u32 + 800)));
    }
    let colors: Vec<[u8; 3]> = by_id.iter().map(|(_, c)| *c).collect();
    let occurrences = |rgb: [u8; 3]| -> (Vec<u32>, Vec<u32>) {
        let mut lo = vec![];
        let mut hi = vec![];
        for (id, c) in by_id.iter() {
            if *c == rgb {
                let id = *id;
                if id < 256 {
                    lo.push(id)
                } else {
                    hi.push(id)
                }
            }
        }
        (lo, hi)
    };
    let detail = || json!({"first": first, "n": n, "failure": failure, "transparent": transparent, "palette_rgb_prefix": colors.iter().take(40).collect::<Vec<_>>()});
    let lookup_ok = |rgb: [u8; 3], a: u8, got: u8| -> Result<&'static str, Failure> {
        if a != 255 {
            let want = transparent.unwrap_or(failure);
            if got != want {
                return Err(Failure::new("lookup-transparent", format!("lookup({:?}, alpha {}) = {}, expected transparent/failure index {}", rgb, a, got, want)).with(detail()));
            }
            return Ok("transparent");
        }
        let (lo, hi) = occurrences(rgb);
        if lo.is_empty() {
            if got != failure {
                return Err(Failure::new("lookup-absent", format!("lookup({:?}) = {} for a colour {} in the palette below 256, expected failure index {}", rgb, got, if hi.is_empty() { "absent" } else { "only >= 256" }, failure)).with(detail()));
            }
            return Ok(if hi.is_empty() { "absent" } else { "only>=256" });
        }
        if hi.is_empty() {
            if !lo.contains(&(got as u32)) {
                return Err(Failure::new("lookup-match", format!("lookup({:?}) = {}, expected one of {:?}", rgb, got, lo)).with(detail()));
            }
            return Ok(if lo.len() > 1 { "duplicate" } else { "unique" });
        }
        // mixed: the statement leaves it open (matching index < 256 or failure)
        if !lo.contains(&(got as u32)) && got != failure {
            return Err(Failure::new("lookup-match", format!("lookup({:?}) = {}, expected one of {:?} or the failure index", rgb, got, lo)).with(detail()));
        }
        Ok("mixed")
    };
    let mut labels: Vec<String> = vec![];
    // direct queries
    for i in 0..60 {
        let rgb = if i % 2 == 0 && !colors.is_empty() {
            let mut c = colors[t.below(colors.len() as u32) as usize];
            if t.chance(1, 6) {
                c[t.below(3) as usize] ^= 1 << t.below(8);
            }
            c
        } else {
            [t.raw() as u8, t.raw() as u8, t.raw() as u8]
        };
        let a = t.u8_biased();
        let got = mapper.lookup(rgb[0], rgb[1], rgb[2], a);
        labels.push(lookup_ok(rgb, a, got)?.to_string());
    }
    // the extreme colours and the colours at the extreme indices, opaque
    for rgb in [[255u8, 255, 255], [0, 0, 0], [255, 255, 254], [254, 255, 255], [0, 0, 1], [255, 0, 0]] {
        let got = mapper.lookup(rgb[0], rgb[1], rgb[2], 255);
        labels.push(lookup_ok(rgb, 255, got)?.to_string());
    }
    for (id, c) in by_id.iter() {
        if [0u32, 1, 254, 255, 256].contains(id) || *id == first {
            let got = mapper.lookup(c[0], c[1], c[2], 255);
            labels.push(lookup_ok(*c, 255, got)?.to_string());
        }
    }
    // a second mapper built from the SAME palette with other options must follow its own options
    {
        let failure2 = failure.wrapping_add(1 + t.below(200) as u8);
        let transparent2 = if transparent.is_some() { None } else { Some(t.u8_biased()) };
        let mapper2 = PaletteMapper::new(pal, MappingOptions { failure: failure2, transparent: transparent2 });
        for (id, c) in by_id.iter().take(400) {
            let id = *id;
            let got = mapper2.lookup(c[0], c[1], c[2], 255);
            let (lo, hi) = occurrences(*c);
            let ok = if lo.is_empty() { got == failure2 } else if hi.is_empty() { lo.contains(&(got as u32)) } else { lo.contains(&(got as u32)) || got == failure2 };
            if !ok {
                return Err(Failure::new("second-mapper", format!("a second PaletteMapper (failure index {}) built from the same palette as a first one (failure index {}) maps entry {} {:?} to {}", failure2, failure, id, c, got)).with(detail()));
            }
        }
        let got = mapper2.lookup(1, 2, 3, 7);
        if got != transparent2.unwrap_or(failure2) {
            return Err(Failure::new("second-mapper", format!("second mapper: non-opaque colour maps to {}, expected {}", got, transparent2.unwrap_or(failure2))).with(detail()));
        }
        labels.push("second-mapper".to_string());
    }
    // one mapper shared by several threads (it is Sync): every thread must get the single-threaded answers
    if tape.len() % 8 == 1 && colors.len() >= 2 {
        let mut qs: Vec<[u8; 4]> = vec![];
        for k in 0..8usize {
            let c = colors[(k * 5 + 1) % colors.len()];
            qs.push([c[0], c[1], c[2], 255]);
        }
        qs.push([1, 2, 3, 255]);
        qs.push([1, 2, 3, 0]);
        let want: Vec<u8> = qs.iter().map(|q| mapper.lookup(q[0], q[1], q[2], q[3])).collect();
        let bad = std::sync::Mutex::new(None::<(usize, u8)>);
        std::thread::scope(|sc| {
            for th in 0..4usize {
                let (qs, want, mapper, bad) = (&qs, &want, &mapper, &bad);
                sc.spawn(move || {
                    for it in 0..6000usize {
                        let k = (it * (th * 2 + 1) + th) % qs.len();
                        let q = qs[k];
                        let got = mapper.lookup(q[0], q[1], q[2], q[3]);
                        if got != want[k] {
                            *bad.lock().unwrap() = Some((k, got));
                            return;
                        }
                    }
                });
            }
        });
        if let Some((k, got)) = bad.into_inner().unwrap() {
            return Err(Failure::new("shared-mapper", format!("PaletteMapper shared by 4 threads: lookup({:?}) = {} in one of them, {} single-threaded", qs[k], got, want[k])).with(detail()));
        }
        labels.push("shared-by-threads".to_string());
    }
    // images
    let img = gen_image(&mut t, &colors);
    check_extrude(&img).map_err(|e| e.with(json!({"dims": img.dimensions(), "pixels_prefix": img.as_raw().iter().take(64).collect::<Vec<_>>()})))?;
    let ((w, h), data) = to_indexed_image(img.clone(), &mapper);
    if (w, h) != img.dimensions() || data.len() != (w * h) as usize {
        return Err(Failure::new("to-indexed-dims", format!("to_indexed_image returned {:?} / {} entries for a {:?} image", (w, h), data.len(), img.dimensions())).with(detail()));
    }
    for (k, p) in img.pixels().enumerate() {
        // row-major: k = y*w + x
        let c = p.0;
        lookup_ok([c[0], c[1], c[2]], c[3], data[k]).map_err(|mut e| {
            e.signature = format!("to-indexed:{}", e.signature);
            e.msg = format!("to_indexed_image pixel {} (x={}, y={}): {}", k, k as u32 % w, k as u32 / w, e.msg);
            e
        })?;
        let direct = mapper.lookup(c[0], c[1], c[2], c[3]);
        if direct != data[k] {
            return Err(Failure::new("to-indexed-order", format!("to_indexed_image entry {} = {} but lookup of pixel (x={}, y={}) = {}", k, data[k], k as u32 % w, k as u32 / w, direct)).with(detail()));
        }
    }
    let uniform = img.pixels().all(|p| p == img.get_pixel(0, 0));
    let (iw, ih) = img.dimensions();
    labels.sort();
    labels.dedup();
    let has_dup_or_hi = labels.iter().any(|l| l == "duplicate" || l == "mixed" || l == "only>=256") || first + n as u32 > 256;
    let mut o = Outcome::new(iw >= 2 && ih >= 2 && !uniform && has_dup_or_hi, hash_bytes(img.as_raw()) ^ hash_bytes(&enc.bytes));
    o.labels = labels.into_iter().map(|l| format!("lookup:{}", l)).collect();
    if iw == 1 || ih == 1 {
        o.labels.push("degenerate-image".into());
    }
    if transparent.is_none() {
        o.labels.push("no-transparent-option".into());
    }
    o.sample = Some(json!({"image": [iw, ih], "palette": {"first": first, "n": n}, "failure": failure, "transparent": transparent}));
    Ok(o)
}

pub fn run(run: &mut Run) {
    run.rule = "cases: images 1x1..40x40 (incl. 1xk, kx1) with arbitrary pixels biased to palette colours and near misses, all alpha values; palettes obtained by loading a generated file with a palette chunk (1..600 entries, first index 0..355 so ranges cross 256, duplicate colours); MappingOptions over all failure/transparent values. Oracle: extrude_border(img) is (w+2)x(h+2) with pixel (x,y) = img(clamp(x-1), clamp(y-1)); lookup: alpha != 255 -> transparent or failure index; opaque colour with all occurrences < 256 -> an index with that RGB; absent or only >= 256 -> failure; mixed -> a matching index < 256 or failure; to_indexed_image returns the dimensions and lookup of each pixel in row-major order. non-trivial: w,h >= 2, non-uniform image, and a palette with a duplicate or an index >= 256; distinct by image+palette hash".into();
    let (lanes, cases) = if run.thorough() { (16, 50000) } else { (16, 6000) };
    run_tapes(run, lanes, cases, 400, &check);
    // thorough only: coverage-guided search over generator tapes with the same oracle
    crate::fuzzstage::fuzz_tapes(run, 400, 120);
}

pub fn replay(case: &serde_json::Value) -> CheckResult {
    let tape = tape_from_case(case).ok_or_else(|| Failure::new("bad-replay", "no tape in replay file"))?;
    check_guarded(|| check(&tape))
}
