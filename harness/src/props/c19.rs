//! C19 — all access paths to a cel agree; single-layer frames equal the cel image.
use crate::encode::encode;
use crate::gen::{build_plan, build_sprite, GenCfg, Tape};
use crate::observe::{canon, cel_obs};
use crate::runner::*;
use asefile::AsepriteFile;
use serde_json::json;

pub fn cfg() -> GenCfg {
    let mut c = GenCfg::full();
    c.tile_aligned = false;
    c.tags = false;
    c.slices = false;
    c.ext_files = false;
    c.max_layers = 6;
    c.max_frames = 6;
    c.canvas_typ = 12;
    c.max_cel = 8;
    c
}

pub fn check_file(f: &AsepriteFile) -> Result<(u64, bool), Failure> {
    let (nf, nl) = (f.num_frames(), f.num_layers());
    let mut pop: Vec<(u32, u32)> = vec![];
    let mut single = false;
    for fi in 0..nf {
        let mut visible_with_cel = vec![];
        for li in 0..nl {
            let a = f.cel(fi, li);
            let fr = f.frame(fi);
            let b = fr.layer(li);
            let ly = f.layer(li);
            let c = ly.frame(fi);
            let oa = cel_obs(&a, true);
            let ob = cel_obs(&b, true);
            let oc = cel_obs(&c, true);
            if oa.frame != fi || oa.layer != li {
                return Err(Failure::new("route-coords", format!("cel({},{}) reports ({},{})", fi, li, oa.frame, oa.layer)));
            }
            if oa != ob {
                return Err(Failure::new("route-frame-layer", format!("cel({f},{l}) and frame({f}).layer({l}) disagree: {:?} vs {:?}", oa, ob, f = fi, l = li)));
            }
            if oa != oc {
                return Err(Failure::new("route-layer-frame", format!("cel({f},{l}) and layer({l}).frame({f}) disagree: {:?} vs {:?}", oa, oc, f = fi, l = li)));
            }
            if !a.is_empty() {
                pop.push((fi, li));
                if ly.is_visible() {
                    visible_with_cel.push(li);
                }
            }
            if let Some(tm) = f.tilemap(li, fi) {
                if canon(&tm.image()) != oa.image.clone().unwrap() {
                    return Err(Failure::new("tilemap-image", format!("tilemap({},{}).image() differs from cel({},{}).image()", li, fi, fi, li)));
                }
            }
        }
        if visible_with_cel.len() == 1 {
            single = true;
            let li = visible_with_cel[0];
            let fi_img = canon(&f.frame(fi).image());
            let ci = canon(&f.cel(fi, li).image());
            if let Some((x, y, a, b)) = fi_img.first_diff(&ci) {
                return Err(Failure::new("single-layer-frame", format!("frame {} has exactly one visible layer with a cel (layer {}), but frame image differs from the cel image at ({},{}): {:?} vs {:?}", fi, li, x, y, a, b)));
            }
        }
    }
    // asymmetric under transposition?
    let asym = pop.iter().any(|(a, b)| a != b && !pop.contains(&(*b, *a)));
    let nontrivial = nf != nl && nf >= 2 && nl >= 2 && asym;
    let _ = single;
    Ok(((nf as u64) * (nl as u64), nontrivial))
}

pub fn check(tape: &[u32]) -> CheckResult {
    let mut t = Tape::new(tape);
    let mut c = cfg();
    // enforce frames != layers often by skewing the maxima
    if t.chance(1, 2) {
        c.max_frames = 2;
        c.max_layers = 12;
        c.cel_density = 7;
    } else {
        c.max_layers = 3;
    }
    let mut s = build_sprite(&mut t, &c);
    // a quarter of the sprites have a single visible layer left (however many layers and cels they have), so
    // that "exactly one visible layer has a cel" also happens in crowded frames
    if t.chance(1, 4) && !s.layers.is_empty() {
        let keep = t.below(s.layers.len() as u32) as usize;
        for (i, l) in s.layers.iter_mut().enumerate() {
            if i != keep && l.kind != crate::model::LayerKind::Group {
                l.flags &= !crate::model::LF_VISIBLE;
            }
        }
    }
    // C19 quantifies over loadable sprites, not only over what the GUI writes: now and then an image layer that
    // carries cels is declared a group layer
    if t.chance(1, 10) {
        let cands: Vec<usize> = (0..s.layers.len()).filter(|l| s.layers[*l].kind == crate::model::LayerKind::Image && s.frames.iter().any(|f| f.cels.iter().any(|c| c.layer as usize == *l && !matches!(c.content, crate::model::CelContent::Link { .. })))).collect();
        if !cands.is_empty() {
            let l = cands[t.below(cands.len() as u32) as usize];
            s.layers[l].kind = crate::model::LayerKind::Group;
        }
    }
    let plan = build_plan(&mut t);
    // A linked cel on a tilemap layer pointing at a tilemap cel (same position and opacity as its target). The
    // unchanged library refuses such files, then the sprite is used without the link; a reader that accepts them
    // has to keep the routes and tilemap(l, f) consistent for the linked cel too.
    let mut link_label = None;
    if t.chance(1, 5) {
        let mut cands = vec![];
        for (fi, fr) in s.frames.iter().enumerate() {
            for c in &fr.cels {
                if matches!(c.content, crate::model::CelContent::Tilemap { .. }) {
                    cands.push((fi, c.layer, c.x, c.y, c.opacity));
                }
            }
        }
        if !cands.is_empty() && s.frames.len() < 60000 {
            let (fi, li, cx, cy, cop) = cands[t.below(cands.len() as u32) as usize];
            let mut s2 = s.clone();
            let link = crate::model::Cel { layer: li, x: cx, y: cy, opacity: cop, content: crate::model::CelContent::Link { frame: fi as u16 }, user_data: None };
            // prefer an existing frame without a cel on that layer, else a new last frame
            let free: Vec<usize> = (0..s2.frames.len()).filter(|f| *f != fi && !s2.frames[*f].cels.iter().any(|c| c.layer == li)).collect();
            if !free.is_empty() && t.chance(2, 3) {
                let f2 = free[t.below(free.len() as u32) as usize];
                s2.frames[f2].cels.push(link);
            } else {
                s2.frames.push(crate::model::Frame { duration: 50, cels: vec![link] });
            }
            if AsepriteFile::read(&encode(&s2, &plan).bytes[..]).is_ok() {
                s = s2;
                link_label = Some("link-to-tilemap-cel:accepted");
            } else {
                link_label = Some("link-to-tilemap-cel:refused");
            }
        }
    }
    let mut enc = encode(&s, &plan);
    // a quarter of the sprites carry non-zero values in the cels' reserved / z-index bytes (route agreement and
    // single-visible-layer frames do not depend on the order in which cels are drawn)
    if t.chance(1, 4) {
        crate::encode::junk_zindex(&mut enc, &mut crate::encode::Rng(t.raw64()));
    }
    // the header flags word in all combinations of bits 0 and 1 ("layer opacity is valid", "groups have their own
    // blend mode and opacity"): whatever a reader makes of them, the routes to a cel must agree and a frame with one
    // visible cel must equal that cel's image
    let hf = [1u32, 1, 0, 2, 3][t.below(5) as usize];
    enc.bytes[14..18].copy_from_slice(&hf.to_le_bytes());
    // a pixel aspect ratio other than 1:1 (refused today): where a reader accepts it, frames and cels must still agree
    if t.chance(1, 10) {
        let (a, b) = [(2u8, 1u8), (1, 2), (3, 2)][t.below(3) as usize];
        let keep = (enc.bytes[34], enc.bytes[35]);
        enc.bytes[34] = a;
        enc.bytes[35] = b;
        if AsepriteFile::read(&enc.bytes[..]).is_err() {
            enc.bytes[34] = keep.0;
            enc.bytes[35] = keep.1;
        }
    }
    let detail = || json!({"model": super::c01::summarize(&s), "input_hex": if enc.bytes.len() < 8000 { hex(&enc.bytes) } else { String::new() }});
    let f = AsepriteFile::read(&enc.bytes[..]).map_err(|e| Failure::new("load-error", format!("well-formed file failed to load: {}", e)).with(detail()))?;
    let (pairs, nontrivial) = check_file(&f).map_err(|e| e.with(detail()))?;
    let mut o = Outcome::new(nontrivial, hash_bytes(&enc.bytes));
    o.counters.push(("cel_coordinates_checked", pairs));
    if s.frames.len() != s.layers.len() {
        o.labels.push("frames!=layers".into());
    }
    if let Some(l) = link_label {
        o.labels.push(l.into());
    }
    o.sample = Some(json!({"frames": s.frames.len(), "layers": s.layers.len(), "cels": s.frames.iter().map(|f| f.cels.iter().map(|c| c.layer).collect::<Vec<_>>()).collect::<Vec<_>>()}));
    Ok(o)
}

pub fn run(run: &mut Run) {
    run.rule = "cases: well-formed sprites (all cel kinds) from a proptest tape plus the repository's golden files; for every frame f and layer l the three routes cel(f,l), frame(f).layer(l), layer(l).frame(f) must report identical frame/layer/is_empty/top_left/is_tilemap/user_data/image; frames with exactly one visible layer holding a cel must render that cel's image; tilemap(l,f).image() must equal cel(f,l).image(). non-trivial: frames != layers, >= 2 of each, and the cel population is asymmetric under transposition; distinct by file hash".into();
    run.assumptions = vec!["fully transparent pixels compare equal regardless of RGB".into()];
    for (name, b) in super::robust::golden_seeds() {
        let r = check_guarded(|| {
            let f = match AsepriteFile::read(&b[..]) {
                Ok(f) => f,
                Err(_) => return Ok(Outcome::new(false, hash_bytes(&b)).label("golden-not-loadable")),
            };
            if f.width() * f.height() > 1 << 18 && f.num_frames() * f.num_layers() > 64 {
                return Ok(Outcome::new(false, hash_bytes(&b)).label("golden-skipped-large"));
            }
            let (pairs, nt) = check_file(&f)?;
            Ok(Outcome::new(nt, hash_bytes(&b)).label("golden").count("cel_coordinates_checked", pairs))
        });
        run.direct(|| json!({"golden": name}), r);
    }
    // more than 65536 layers (layer ids wider than 16 bits), cels on a few low and a few high layers, 2 frames
    {
        let r = check_guarded(check_wide);
        run.direct(|| json!({"wide_layers": 65540}), r);
    }
    let (lanes, cases) = if run.thorough() { (16, 20000) } else { (16, 4000) };
    run_tapes(run, lanes, cases, 1200, &check);
    // thorough only: coverage-guided search over generator tapes with the same oracle
    crate::fuzzstage::fuzz_tapes(run, 1200, 120);
}

fn check_wide() -> CheckResult {
    let n = 65540usize;
    let mut s = crate::model::Sprite::empty(2, 1, crate::model::Fmt::Rgba);
    s.frames.push(crate::model::Frame { duration: 10, cels: vec![] });
    for i in 0..n {
        s.layers.push(crate::model::Layer { flags: 1, kind: crate::model::LayerKind::Image, level: 0, blend: 0, opacity: 255, name: if i % 16384 == 1 { format!("l{}", i) } else { String::new() }, user_data: None });
    }
    for (fi, layers) in [(0usize, vec![1u16, 3, 65534]), (1, vec![2, 65535])] {
        for l in layers {
            s.frames[fi].cels.push(crate::model::Cel { layer: l, x: (l % 2) as i16, y: 0, opacity: 255, content: crate::model::CelContent::Image { w: 1, h: 1, pixels: vec![(l % 251) as u8 + 1, 9, 9, 255] }, user_data: None });
        }
    }
    let enc = encode(&s, &crate::encode::Plan::plain());
    let f = AsepriteFile::read(&enc.bytes[..]).map_err(|e| Failure::new("load-error", format!("sprite with 65540 layers failed to load: {}", e)))?;
    let (pairs, _) = check_file(&f)?;
    Ok(Outcome::new(true, 65540).label("layers>65536").count("cel_coordinates_checked", pairs))
}

pub fn replay(case: &serde_json::Value) -> CheckResult {
    if case.get("wide_layers").is_some() {
        return check_guarded(check_wide);
    }
    if let Some(g) = case.get("golden").and_then(|g| g.as_str()) {
        let b = std::fs::read(format!("/repo/tests/data/{}", g)).map_err(|e| Failure::new("bad-replay", e.to_string()))?;
        return check_guarded(|| {
            let f = AsepriteFile::read(&b[..]).map_err(|e| Failure::new("golden-load", e.to_string()))?;
            check_file(&f).map(|_| Outcome::new(false, 0))
        });
    }
    let tape = tape_from_case(case).ok_or_else(|| Failure::new("bad-replay", "no tape in replay file"))?;
    check_guarded(|| check(&tape))
}
