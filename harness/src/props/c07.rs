//! C07 — observationally neutral encoding choices do not change the result (metamorphic).
use crate::encode::encode;
use crate::gen::{build_plan_padded as build_plan, build_sprite, GenCfg, Tape};
use crate::observe::observe;
use crate::runner::*;
use asefile::AsepriteFile;
use serde_json::json;

pub fn cfg() -> GenCfg {
    let mut c = GenCfg::full();
    c.tile_aligned = false;
    c.canvas_typ = 16;
    c.max_cel = 10;
    c
}

pub fn diff_obs(a: &crate::observe::Obs, b: &crate::observe::Obs) -> String {
    macro_rules! cmp {
        ($f:ident) => {
            if a.$f != b.$f {
                return format!("{}: {:?} vs {:?}", stringify!($f), a.$f, b.$f).chars().take(400).collect();
            }
        };
    }
    cmp!(width);
    cmp!(height);
    cmp!(size);
    cmp!(num_frames);
    cmp!(num_layers);
    cmp!(fmt);
    cmp!(bpp);
    cmp!(transparent);
    cmp!(transparent2);
    cmp!(indexed);
    cmp!(layers);
    cmp!(durations);
    cmp!(frame_images);
    cmp!(cels);
    cmp!(tags);
    cmp!(slices);
    cmp!(palette_count);
    cmp!(palette);
    cmp!(ext_files);
    cmp!(tilesets);
    cmp!(tilemaps);
    cmp!(sprite_user_data);
    String::new()
}

pub fn check(tape: &[u32]) -> CheckResult {
    let mut t = Tape::new(tape);
    let mut s = build_sprite(&mut t, &cfg());
    if t.chance(1, 60) {
        // one large but highly compressible cel: its chunk is > 1 MiB stored raw / at level 0 and tiny at level 9
        use crate::model::*;
        let (w, h) = (500 + t.below(200) as u16, 450 + t.below(150) as u16);
        let bpp = s.fmt.bpp();
        let pal: Vec<u8> = s.effective_palette().map(|m| m.keys().filter(|k| **k < 256).map(|k| *k as u8).collect()).unwrap_or_default();
        if s.fmt != Fmt::Indexed || !pal.is_empty() {
            let mut pixels = Vec::with_capacity(w as usize * h as usize * bpp);
            for i in 0..w as usize * h as usize {
                match s.fmt {
                    Fmt::Rgba => pixels.extend_from_slice(&[(i / 4096) as u8, 7, 200, 255]),
                    Fmt::Gray => pixels.extend_from_slice(&[(i / 8192) as u8, 255]),
                    Fmt::Indexed => pixels.push(pal[(i / 10000) % pal.len()]),
                }
            }
            let li = s.layers.len() as u16;
            s.layers.push(Layer { flags: 3, kind: LayerKind::Image, level: 0, blend: 0, opacity: 255, name: "large".into(), user_data: None });
            s.frames[0].cels.push(Cel { layer: li, x: -5, y: -7, opacity: 255, content: CelContent::Image { w, h, pixels }, user_data: None });
        }
    }
    let pa = build_plan(&mut t);
    let pb = build_plan(&mut t);
    let ea = encode(&s, &pa);
    let eb = encode(&s, &pb);
    let detail = || json!({"model": super::c01::summarize(&s), "plan_a": format!("{:?}", pa), "plan_b": format!("{:?}", pb), "a_hex": if ea.bytes.len() < 6000 { hex(&ea.bytes) } else { String::new() }, "b_hex": if eb.bytes.len() < 6000 { hex(&eb.bytes) } else { String::new() }});
    let fa = AsepriteFile::read(&ea.bytes[..]).map_err(|e| Failure::new("load-error", format!("encoding A failed to load: {}", e)).with(detail()))?;
    let fb = AsepriteFile::read(&eb.bytes[..]).map_err(|e| Failure::new("load-error", format!("encoding B failed to load: {}", e)).with(detail()))?;
    let oa = observe(&fa, true);
    let ob = observe(&fb, true);
    if oa != ob {
        let d = diff_obs(&oa, &ob);
        let field = d.split(':').next().unwrap_or("?").to_string();
        return Err(Failure::new(format!("obs-differs:{}", field), format!("two encodings of one sprite are observed differently: {}", d)).with(detail()));
    }
    let mut classes = vec![];
    let mut cls = |c: bool, n: &str| {
        if c {
            classes.push(n.to_string());
        }
    };
    cls(pa.compress != pb.compress || pa.zlevel != pb.zlevel, "raw-vs-zlib/level");
    cls(pa.count_form != pb.count_form, "count-field-form");
    cls((pa.ignorable > 0) != (pb.ignorable > 0), "ignorable-chunks");
    cls((pa.pad > 0) != (pb.pad > 0), "chunk-padding");
    cls((pa.trailing > 0) != (pb.trailing > 0), "trailing-garbage");
    cls(pa.junk != pb.junk, "unused-field-values");
    cls(pa.ratio != pb.ratio, "pixel-ratio-form");
    cls(pa.legacy_beside_new != pb.legacy_beside_new && s.palette.is_some() && s.legacy.is_none(), "legacy-beside-new");
    cls(pa.shuffle != pb.shuffle || (pa.shuffle && pa.seed != pb.seed), "chunk/cel-order");
    cls(pa.color_profile != pb.color_profile, "color-profile-chunk");
    let nontrivial = ea.bytes != eb.bytes && classes.len() >= 2;
    let mut o = Outcome::new(nontrivial, hash_bytes(&ea.bytes) ^ hash_bytes(&eb.bytes).rotate_left(17));
    o.labels = classes;
    if s.frames.iter().any(|f| f.cels.len() >= 2) {
        o.labels.push("multi-cel-frame".into());
    }
    o.sample = Some(json!({"model": super::c01::summarize(&s), "plan_a": format!("{:?}", pa), "plan_b": format!("{:?}", pb), "bytes": [ea.bytes.len(), eb.bytes.len()]}));
    Ok(o)
}

pub fn run(run: &mut Run) {
    run.rule = "cases: one well-formed sprite model and two independently drawn encoding plans (per-cel raw/zlib level 0-9, per-frame chunk-count form, ignorable chunks cel-extra/mask/path/colour-profile none|sRGB, chunk padding, trailing garbage, unused header/layer/tag/palette field values, pixel ratio with a zero component, redundant legacy palette chunk, conformant chunk and cel order shuffles). Oracle: both load and the whole-API observations (structure, user data, all images) are equal. non-trivial: byte strings differ and the plans differ in >= 2 choice classes (labels count each class); distinct by hash of both files".into();
    run.assumptions = vec!["only the equivalences the statement lists are varied; frame byte count, z-index and header flags are never varied".into()];
    let (lanes, cases) = if run.thorough() { (16, 25000) } else { (16, 3000) };
    run_tapes(run, lanes, cases, 1500, &check);
    // thorough only: coverage-guided search over generator tapes with the same oracle
    crate::fuzzstage::fuzz_tapes(run, 1500, 120);
}

pub fn replay(case: &serde_json::Value) -> CheckResult {
    let tape = tape_from_case(case).ok_or_else(|| Failure::new("bad-replay", "no tape in replay file"))?;
    check_guarded(|| check(&tape))
}
