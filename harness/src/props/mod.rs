use crate::runner::*;
pub mod c01;
pub mod c02;
pub mod c03;
pub mod c06;
pub mod c07;
pub mod c08;
pub mod c09;
pub mod c10;
pub mod c11;
pub mod c13;
pub mod c14;
pub mod c15;
pub mod c16;
#[cfg(feature = "utils")]
pub mod c18;
pub mod c19;
pub mod c04;
pub mod c05;
pub mod c12;
pub mod robust;

pub fn run(id: &str, tier: &str, seed: u64) -> Option<i32> {
    macro_rules! go {
        ($name:literal, $level:literal, $m:ident) => {{
            let mut r = Run::new($name, tier, seed, $level);
            $m::run(&mut r);
            Some(r.finish())
        }};
    }
    match id {
        "C01" => go!("C01", "exploration", c01),
        "C02" => go!("C02", "exploration", c02),
        "C06" => go!("C06", "exploration", c06),
        "C07" => go!("C07", "exploration", c07),
        "C19" => go!("C19", "exploration", c19),
        "C09" => go!("C09", "exploration", c09),
        "C10" => go!("C10", "exploration", c10),
        "C13" => go!("C13", "fault_enumeration", c13),
        "C15" => go!("C15", "exploration", c15),
        "C14" => go!("C14", "fault_enumeration", c14),
        "C11" => go!("C11", "exploration", c11),
        "C08" => go!("C08", "exploration", c08),
        #[cfg(feature = "utils")]
        "C18" => go!("C18", "exploration", c18),
        "C16" => go!("C16", "exploration", c16),
        "C03" => go!("C03", "exploration", c03),
        "C17" => {
            let mut r = Run::new("C17", tier, seed, "exploration");
            c03::run_c17(&mut r);
            Some(r.finish())
        }
        "C04" => go!("C04", "exploration", c04),
        "C05" => go!("C05", "exploration", c05),
        "C12" => go!("C12", "exploration", c12),
        _ => None,
    }
}

pub fn replay(id: &str, case: &serde_json::Value) -> Option<CheckResult> {
    match id {
        "C01" => Some(c01::replay(case)),
        "C02" => Some(c02::replay(case)),
        "C06" => Some(c06::replay(case)),
        "C07" => Some(c07::replay(case)),
        "C19" => Some(c19::replay(case)),
        "C09" => Some(c09::replay(case)),
        "C10" => Some(c10::replay(case)),
        "C13" => Some(c13::replay(case)),
        "C15" => Some(c15::replay(case)),
        "C14" => Some(c14::replay(case)),
        "C11" => Some(c11::replay(case)),
        "C08" => Some(c08::replay(case)),
        #[cfg(feature = "utils")]
        "C18" => Some(c18::replay(case)),
        "C16" => Some(c16::replay(case)),
        "C03" => Some(c03::replay(case)),
        "C17" => Some(c03::replay_c17(case)),
        "C04" => Some(c04::replay(case)),
        "C05" => Some(c05::replay(case)),
        "C12" => Some(c12::replay(case)),
        _ => None,
    }
}
