use crate::runner::*;
pub mod c01;

pub fn run(id: &str, tier: &str, seed: u64) -> Option<i32> {
    macro_rules! go {
        ($name:literal, $level:literal, $m:ident) => {{
            let mut r = Run::new($name, tier, seed, $level);
            $m::run(&mut r);
            Some(r.finish())
        }};
    }
    match id {
        "C01" => go!("C01", "exploration", c01),
        _ => None,
    }
}

pub fn replay(id: &str, case: &serde_json::Value) -> Option<CheckResult> {
    match id {
        "C01" => Some(c01::replay(case)),
        _ => None,
    }
}
