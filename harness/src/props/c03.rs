//! C03 — blend modes reproduce Aseprite bit for bit (differential against the C++ reference), and
//! C17 — mode-independent blend laws (algebraic, no reference), on the same enumerations.
use crate::encode::{encode, mix, Plan, Rng};
use crate::model::*;
use crate::runner::*;
use asefile::AsepriteFile;
use serde_json::json;

extern "C" {
    fn ase_blend_batch(mode: i32, back: *const u32, src: *const u32, opacity: i32, out: *mut u32, undef: *mut u8, n: usize);
}

pub fn ref_blend(mode: u16, back: &[u32], src: &[u32], opacity: u8) -> (Vec<u32>, Vec<u8>) {
    let n = back.len();
    let mut out = vec![0u32; n];
    let mut undef = vec![0u8; n];
    unsafe { ase_blend_batch(mode as i32, back.as_ptr(), src.as_ptr(), opacity as i32, out.as_mut_ptr(), undef.as_mut_ptr(), n) };
    (out, undef)
}

pub const SEPARABLE: [u16; 15] = [0, 1, 2, 3, 4, 5, 6, 7, 8, 9, 10, 11, 16, 17, 18];
pub const HSL: [u16; 4] = [12, 13, 14, 15];
pub const MODE_NAMES: [&str; 19] = ["normal", "multiply", "screen", "overlay", "darken", "lighten", "color_dodge", "color_burn", "hard_light", "soft_light", "difference", "exclusion", "hue", "saturation", "color", "luminosity", "addition", "subtract", "divide"];

/// One probe sprite: two full-canvas layers of `n = w*h` pixels.
#[derive(Clone, Debug)]
pub struct Spec {
    pub family: &'static str,
    pub mode: u16,
    pub lop: u8,
    pub cop: u8,
    pub w: u16,
    pub h: u16,
    pub back: Vec<u32>,
    pub src: Vec<u32>,
    pub descr: String,
    /// the source layer is a tilemap layer whose single tile holds the source pixels
    pub tilemap_top: bool,
    /// 0 = RGBA sprite; 1 = grayscale sprite (tuples have r=g=b); 2 = indexed sprite (tuples come from a palette)
    pub fmt: u8,
}

fn pack(r: u8, g: u8, b: u8, a: u8) -> u32 {
    r as u32 | (g as u32) << 8 | (b as u32) << 16 | (a as u32) << 24
}

fn to_bytes(px: &[u32]) -> Vec<u8> {
    let mut v = Vec::with_capacity(px.len() * 4);
    for p in px {
        v.extend_from_slice(&p.to_le_bytes());
    }
    v
}

/// Render through the public API: bottom layer Normal 255/255 (reproduces any RGBA verbatim over
/// the empty canvas), top layer carries the mode and both opacities.
fn encode_px(spec: &Spec, px: &[u32], pal: &std::collections::HashMap<u32, u8>) -> Vec<u8> {
    match spec.fmt {
        1 => px.iter().flat_map(|p| [*p as u8, (*p >> 24) as u8]).collect(),
        2 => px.iter().map(|p| pal[p]).collect(),
        _ => to_bytes(px),
    }
}

pub fn render(spec: &Spec, mode: u16) -> Result<Vec<u32>, Failure> {
    if spec.fmt != 0 {
        return render_other_format(spec, mode);
    }
    let mut s = Sprite::empty(spec.w, spec.h, Fmt::Rgba);
    // flag bits other than VISIBLE have no documented effect on RGBA compositing; vary them by content hash
    let fl = |k: u64| -> u16 { [0u16, 0, 2, LF_BACKGROUND, 0x7E, 4 | LF_BACKGROUND, 0x10, 0x40][((spec.back.len() as u64 + spec.lop as u64 * 7 + spec.cop as u64 * 13 + spec.mode as u64 + k * 3) % 8) as usize] };
    s.layers.push(Layer { flags: LF_VISIBLE | fl(1), kind: LayerKind::Image, level: 0, blend: 0, opacity: 255, name: "backdrop".into(), user_data: None });
    s.layers.push(Layer { flags: LF_VISIBLE | fl(2), kind: LayerKind::Image, level: 0, blend: mode, opacity: spec.lop, name: "source".into(), user_data: None });
    s.frames[0].cels.push(Cel { layer: 0, x: 0, y: 0, opacity: 255, content: CelContent::Image { w: spec.w, h: spec.h, pixels: to_bytes(&spec.back) }, user_data: None });
    if spec.tilemap_top {
        // same pixels, delivered through the tilemap rendering path: tileset {tile 0 = empty, tile 1 = source}
        let mut px = vec![0u8; spec.w as usize * spec.h as usize * 4];
        px.extend(to_bytes(&spec.src));
        s.tilesets.push(Tileset { id: 9, flags: 6, count: 2, tw: spec.w, th: spec.h, base_index: 1, name: "t".into(), ext: (0, 0), pixels: px });
        s.layers[1].kind = LayerKind::Tilemap { tileset: 9 };
        s.frames[0].cels.push(Cel { layer: 1, x: 0, y: 0, opacity: spec.cop, content: CelContent::Tilemap { w: 1, h: 1, bits: 32, masks: [0x1fffffff, 0x20000000, 0x40000000, 0x80000000], tiles: vec![1] }, user_data: None });
    } else if (spec.back.len() as u64 + spec.lop as u64 * 5 + spec.cop as u64 * 3 + spec.mode as u64 * 7 + spec.src[0] as u64 / 3) % 4 == 1 && spec.w < 60000 && spec.h < 60000 {
        // a quarter of the probes deliver the same source pixels in a larger cel that overhangs the canvas on all
        // four sides (k extra columns and rows of other pixels around them, offset (-k, -k)): what lands on the
        // canvas is the same
        let k = 1 + (spec.src[0] % 3) as u16;
        let (w2, h2) = (spec.w + 2 * k, spec.h + 2 * k);
        let mut px = vec![0u32; w2 as usize * h2 as usize];
        for (i, p) in px.iter_mut().enumerate() {
            *p = (i as u32).wrapping_mul(2654435761) | 0x0100_0000;
        }
        for y in 0..spec.h as usize {
            for x in 0..spec.w as usize {
                px[(y + k as usize) * w2 as usize + x + k as usize] = spec.src[y * spec.w as usize + x];
            }
        }
        s.frames[0].cels.push(Cel { layer: 1, x: -(k as i16), y: -(k as i16), opacity: spec.cop, content: CelContent::Image { w: w2, h: h2, pixels: to_bytes(&px) }, user_data: None });
    } else {
        s.frames[0].cels.push(Cel { layer: 1, x: 0, y: 0, opacity: spec.cop, content: CelContent::Image { w: spec.w, h: spec.h, pixels: to_bytes(&spec.src) }, user_data: None });
    }
    // every fifth probe is observed through a second frame whose cels are links to the first; a link renders like
    // its target (C06), whatever the link chunk's own opacity byte says (links to tilemap cels are refused today)
    let via_links = (spec.back.len() as u64 + spec.lop as u64 * 3 + spec.cop as u64 * 5 + spec.mode as u64 + spec.src[0] as u64) % 5 == 0 && !spec.tilemap_top;
    if via_links {
        let other = |o: u8| if o == 255 { 0 } else { 255 - o / 2 };
        s.frames.push(Frame { duration: 100, cels: vec![
            Cel { layer: 0, x: 0, y: 0, opacity: other(255), content: CelContent::Link { frame: 0 }, user_data: None },
            Cel { layer: 1, x: 0, y: 0, opacity: other(spec.cop), content: CelContent::Link { frame: 0 }, user_data: None },
        ] });
    }
    let mut plan = Plan::plain();
    plan.compress = 0;
    plan.zlevel = 1;
    let mut enc = encode(&s, &plan);
    // Header flags: bit 0 says "the layer opacity field is valid", bit 1 (newer format revisions) "groups have a
    // blend mode and opacity of their own". When every layer opacity in the file is 255 and there are no groups, a
    // reader that ignores the flags and one that honours them must produce the same image, so such probe sprites
    // carry all four combinations.
    if spec.lop == 255 {
        let hf = [1u32, 0, 3, 2][((spec.mode as u64 + spec.cop as u64 + spec.back.len() as u64 / 7 + spec.back[0] as u64) % 4) as usize];
        enc.bytes[14..18].copy_from_slice(&hf.to_le_bytes());
    }
    let f = AsepriteFile::read(&enc.bytes[..]).map_err(|e| Failure::new("load-error", format!("probe sprite failed to load: {}", e)))?;
    let img = f.frame(if via_links { 1 } else { 0 }).image();
    Ok(img.as_raw().chunks_exact(4).map(|c| pack(c[0], c[1], c[2], c[3])).collect())
}

/// Grayscale / indexed probe: the same RGBA tuples, stored as (v, a) pairs or as indices into a palette that
/// holds exactly the distinct tuples (at most 255 of them; index 255 is the unused transparent index).
fn render_other_format(spec: &Spec, mode: u16) -> Result<Vec<u32>, Failure> {
    let fmt = if spec.fmt == 1 { Fmt::Gray } else { Fmt::Indexed };
    let mut s = Sprite::empty(spec.w, spec.h, fmt);
    let mut pal: std::collections::HashMap<u32, u8> = std::collections::HashMap::new();
    if spec.fmt == 2 {
        let mut entries = vec![];
        for p in spec.back.iter().chain(spec.src.iter()) {
            if !pal.contains_key(p) {
                pal.insert(*p, entries.len() as u8);
                let b = p.to_le_bytes();
                entries.push(PalEntry { rgba: b, name: None });
            }
        }
        assert!(entries.len() <= 255);
        // two probes in three use a palette that does not start at index 0 (the indices below it stay undefined and
        // unused): the colours a pixel index stands for must not depend on where the palette starts
        let room = 255 - entries.len() as u32;
        let first = match (spec.back.len() as u32 + spec.lop as u32 + spec.cop as u32 * 3 + spec.mode as u32) % 3 {
            0 => 0,
            1 => room,
            _ => room.min(1 + (spec.back[0] % 97)),
        };
        for v in pal.values_mut() {
            *v += first as u8;
        }
        s.palette = Some(NewPalette { first, entries });
        s.transparent = 255;
    }
    s.layers.push(Layer { flags: LF_VISIBLE, kind: LayerKind::Image, level: 0, blend: 0, opacity: 255, name: "backdrop".into(), user_data: None });
    s.layers.push(Layer { flags: LF_VISIBLE, kind: LayerKind::Image, level: 0, blend: mode, opacity: spec.lop, name: "source".into(), user_data: None });
    s.frames[0].cels.push(Cel { layer: 0, x: 0, y: 0, opacity: 255, content: CelContent::Image { w: spec.w, h: spec.h, pixels: encode_px(spec, &spec.back, &pal) }, user_data: None });
    s.frames[0].cels.push(Cel { layer: 1, x: 0, y: 0, opacity: spec.cop, content: CelContent::Image { w: spec.w, h: spec.h, pixels: encode_px(spec, &spec.src, &pal) }, user_data: None });
    let mut plan = Plan::plain();
    plan.compress = 0;
    let enc = encode(&s, &plan);
    let f = AsepriteFile::read(&enc.bytes[..]).map_err(|e| Failure::new("load-error", format!("probe sprite failed to load: {}", e)))?;
    let img = f.frame(0).image();
    Ok(img.as_raw().chunks_exact(4).map(|c| pack(c[0], c[1], c[2], c[3])).collect())
}

fn unpack(p: u32) -> [u8; 4] {
    p.to_le_bytes()
}

pub fn spec_json(spec: &Spec, i: usize) -> serde_json::Value {
    json!({"family": spec.family, "mode": MODE_NAMES[spec.mode as usize], "layer_opacity": spec.lop, "cel_opacity": spec.cop, "backdrop": unpack(spec.back[i]), "source": unpack(spec.src[i]), "descr": spec.descr})
}

fn nontrivial_fraction(spec: &Spec) -> (u64, u64) {
    let prod = mul_un8(spec.lop as i32, spec.cop as i32);
    let mut nt = 0u64;
    for i in 0..spec.back.len() {
        if spec.back[i] >> 24 != 0 && spec.src[i] >> 24 != 0 && prod != 0 {
            nt += 1;
        }
    }
    (nt, spec.back.len() as u64)
}

fn spec_hash(spec: &Spec) -> u64 {
    hash_bytes(&to_bytes(&spec.back)) ^ hash_bytes(&to_bytes(&spec.src)).rotate_left(13) ^ mix(spec.mode as u64, (spec.lop as u64) << 8 | spec.cop as u64)
}

/// C03 oracle for one sprite. HSL and random sprites are additionally rendered in other modes right
/// after the first one, on the same thread and the same pixel data (the last tuple repeats the first), so
/// that anything remembered from one blend call to the next (across cels, frames, sprites, modes) shows.
pub fn check_c03(spec: &Spec) -> CheckResult {
    let first = check_c03_mode(spec)?;
    if spec.family != "channel-exhaustive" {
        let others: Vec<u16> = if HSL.contains(&spec.mode) { HSL.iter().copied().filter(|m| *m != spec.mode).collect() } else { vec![(spec.mode + 1) % 19, 12 + spec.mode % 4] };
        for m in others {
            let mut s2 = spec.clone();
            s2.mode = m;
            check_c03_mode(&s2)?;
        }
    }
    Ok(first)
}

fn check_c03_mode(spec: &Spec) -> CheckResult {
    let got = render(spec, spec.mode)?;
    // the reference composes both layers: empty canvas + backdrop (Normal 255), then the source
    let zeros = vec![0u32; spec.back.len()];
    let (bottom, u0) = ref_blend(0, &zeros, &spec.back, 255);
    let op = mul_un8(spec.lop as i32, spec.cop as i32);
    let (want, u1) = ref_blend(spec.mode, &bottom, &spec.src, op);
    let mut undef = 0u64;
    for i in 0..got.len() {
        if u0[i] != 0 || u1[i] != 0 {
            undef += 1;
            continue;
        }
        if got[i] != want[i] {
            return Err(Failure::new(format!("blend-mismatch:{}", MODE_NAMES[spec.mode as usize]), format!("mode {} backdrop {:?} source {:?} layer opacity {} cel opacity {}: library {:?}, Aseprite reference {:?}", MODE_NAMES[spec.mode as usize], unpack(spec.back[i]), unpack(spec.src[i]), spec.lop, spec.cop, unpack(got[i]), unpack(want[i]))).with(spec_json(spec, i)));
        }
    }
    let (nt, total) = nontrivial_fraction(spec);
    let mut o = Outcome::new(nt * 4 >= total, spec_hash(spec));
    o.labels.push(format!("mode-{}", MODE_NAMES[spec.mode as usize]));
    o.labels.push(format!("family-{}", spec.family));
    o.counters.push(("tuples", total));
    o.counters.push(("tuples_nontrivial", nt));
    o.counters.push(("tuples_reference_undefined", undef));
    o.sample = Some(json!({"family": spec.family, "mode": MODE_NAMES[spec.mode as usize], "layer_opacity": spec.lop, "cel_opacity": spec.cop, "descr": spec.descr, "pixels": total, "first_tuple": spec_json(spec, 0), "last_tuple": spec_json(spec, spec.back.len() - 1)}));
    Ok(o)
}

/// C17 laws for one sprite (no reference involved).
pub fn check_c17(spec: &Spec) -> CheckResult {
    let got = match guarded(|| render(spec, spec.mode)) {
        Ok(r) => r?,
        Err((loc, msg)) => {
            let l = short_loc(&loc);
            return Err(Failure::new(format!("range-panic:{}", l), format!("mode {} layer opacity {} cel opacity {}: rendering panicked at {}: {}", MODE_NAMES[spec.mode as usize], spec.lop, spec.cop, l, msg)).with(json!({"family": spec.family, "mode": spec.mode, "descr": spec.descr, "lop": spec.lop, "cop": spec.cop})));
        }
    };
    let normal = if spec.mode == 0 { got.clone() } else { render(spec, 0)? };
    let prod = mul_un8(spec.lop as i32, spec.cop as i32);
    let mut premises = [0u64; 4];
    for i in 0..got.len() {
        let (b, s, r, n) = (unpack(spec.back[i]), unpack(spec.src[i]), unpack(got[i]), unpack(normal[i]));
        let fail = |law: &str, msg: String| Err(Failure::new(format!("law:{}:{}", law, MODE_NAMES[spec.mode as usize]), format!("mode {} backdrop {:?} source {:?} layer opacity {} cel opacity {} -> {:?}: {}", MODE_NAMES[spec.mode as usize], b, s, spec.lop, spec.cop, r, msg)).with(spec_json(spec, i)));
        // alpha equals the Normal-mode alpha
        if r[3] != n[3] {
            return fail("alpha-equals-normal", format!("alpha {} but Normal mode gives alpha {}", r[3], n[3]));
        }
        premises[0] += 1;
        // transparent source or zero opacity product leaves a visible backdrop unchanged
        if (s[3] == 0 || prod == 0) && b[3] > 0 {
            premises[1] += 1;
            if r != b {
                return fail("transparent-source-identity", "a fully transparent source / zero opacity product must leave the backdrop unchanged".into());
            }
        }
        // over a fully transparent backdrop: source colour with alpha scaled by the opacity
        if b[3] == 0 {
            premises[2] += 1;
            let a = mul_un8(s[3] as i32, prod as i32);
            let ok = if a == 0 { r[3] == 0 } else { r == [s[0], s[1], s[2], a] };
            if !ok {
                return fail("transparent-backdrop", format!("expected source colour with alpha {}", a));
            }
        }
        // Normal at full opacity with an opaque source returns the source
        if spec.mode == 0 && prod == 255 && s[3] == 255 {
            premises[3] += 1;
            if r != s {
                return fail("normal-opaque-source", "Normal mode at full opacity with an opaque source must return the source".into());
            }
        }
    }
    let (nt, total) = nontrivial_fraction(spec);
    let kinds = premises.iter().filter(|p| **p > 0).count();
    let mut o = Outcome::new(nt * 4 >= total || kinds >= 2, spec_hash(spec));
    o.labels.push(format!("mode-{}", MODE_NAMES[spec.mode as usize]));
    o.labels.push(format!("family-{}", spec.family));
    o.counters.push(("tuples", total));
    o.counters.push(("law_alpha_checked", premises[0]));
    o.counters.push(("law_transparent_source_checked", premises[1]));
    o.counters.push(("law_transparent_backdrop_checked", premises[2]));
    o.counters.push(("law_normal_opaque_checked", premises[3]));
    o.sample = Some(json!({"family": spec.family, "mode": MODE_NAMES[spec.mode as usize], "layer_opacity": spec.lop, "cel_opacity": spec.cop, "descr": spec.descr, "pixels": total, "first_tuple": spec_json(spec, 0)}));
    Ok(o)
}

// ---------------------------------------------------------------- enumerations

const EDGE: [u8; 8] = [0, 1, 2, 127, 128, 129, 254, 255];
pub const OPACITY_PAIRS: [(u8, u8); 8] = [(255, 255), (0, 255), (255, 0), (1, 1), (128, 255), (255, 128), (200, 100), (254, 254)];

/// family 1: channel-exhaustive square for separable modes
pub fn spec_channel(mode: u16, ba: u8, sa: u8, lop: u8, cop: u8) -> Spec {
    let mut back = Vec::with_capacity(65536);
    let mut src = Vec::with_capacity(65536);
    for y in 0..256u32 {
        for x in 0..256u32 {
            back.push(pack(x as u8, y as u8, (x + y) as u8, ba));
            src.push(pack(y as u8, x as u8, y as u8, sa));
        }
    }
    Spec { family: "channel-exhaustive", mode, lop, cop, w: 256, h: 256, back, src, descr: format!("all 65536 (backdrop channel, source channel) pairs in each channel, Ba={} Sa={}", ba, sa), tilemap_top: false, fmt: 0 }
}

/// family 2: colour grids for HSL modes; block selects which 65536-slice of the grid^6 space
pub fn spec_hsl(mode: u16, vals: &[u8], block: u64, ba: u8, sa: u8, lop: u8, cop: u8) -> Spec {
    let n = vals.len() as u64;
    let total = n.pow(6);
    let mut back = Vec::with_capacity(65536);
    let mut src = Vec::with_capacity(65536);
    for k in 0..65536u64 {
        let mut idx = (block * 65536 + k) % total;
        let mut c = [0u8; 6];
        for j in 0..6 {
            c[j] = vals[(idx % n) as usize];
            idx /= n;
        }
        back.push(pack(c[0], c[1], c[2], ba));
        src.push(pack(c[3], c[4], c[5], sa));
    }
    let n = back.len();
    back[n - 1] = back[0];
    src[n - 1] = src[0];
    Spec { family: "hsl-grid", mode, lop, cop, w: 256, h: 256, back, src, descr: format!("colour grid {}^3 x {}^3 block {} Ba={} Sa={}", n, n, block, ba, sa), tilemap_top: false, fmt: 0 }
}

pub fn spec_random(mode: u16, seed: u64, biased: bool) -> Spec {
    // every fourth random sprite delivers the source through a tilemap cel
    let tilemap_top = (seed >> 7) % 4 == 0;
    let mut r = Rng(seed);
    let pick = |r: &mut Rng| -> u8 {
        if biased {
            [0u8, 1, 63, 64, 127, 128, 129, 254, 255][(r.next() % 9) as usize]
        } else {
            r.next() as u8
        }
    };
    let (lop, cop) = if biased { (pick(&mut r), pick(&mut r)) } else if r.next() % 3 == 0 { (255, 255) } else { (r.next() as u8, r.next() as u8) };
    let n = 128 * 128;
    let mut back = Vec::with_capacity(n);
    let mut src = Vec::with_capacity(n);
    for _ in 0..n {
        let (b, s) = if biased && r.next() % 4 == 0 {
            // equal-channel patterns
            let v = pick(&mut r);
            let w = pick(&mut r);
            match r.next() % 4 {
                0 => ([v, v, v, pick(&mut r)], [w, w, w, pick(&mut r)]),
                1 => ([v, v, w, pick(&mut r)], [w, v, v, pick(&mut r)]),
                2 => ([v, w, v, pick(&mut r)], [v, v, w, pick(&mut r)]),
                _ => ([w, v, v, pick(&mut r)], [v, w, w, pick(&mut r)]),
            }
        } else {
            ([pick(&mut r), pick(&mut r), pick(&mut r), pick(&mut r)], [pick(&mut r), pick(&mut r), pick(&mut r), pick(&mut r)])
        };
        // relationships random data never produces: identical pixels, identical colour with other alpha
        let s = match r.next() % 16 {
            0 => b,
            1 => [b[0], b[1], b[2], s[3]],
            _ => s,
        };
        back.push(pack(b[0], b[1], b[2], b[3]));
        src.push(pack(s[0], s[1], s[2], s[3]));
    }
    // every sixth random sprite is a grayscale sprite, every sixth an indexed one (same arithmetic, other
    // pixel decode path): grayscale tuples get r=g=b, indexed tuples are drawn from 120 distinct colours
    let fmt = if tilemap_top { 0 } else { [0u8, 0, 0, 0, 1, 2][((seed >> 11) % 6) as usize] };
    if fmt == 1 {
        for p in back.iter_mut().chain(src.iter_mut()) {
            let b = p.to_le_bytes();
            *p = pack(b[0], b[0], b[0], b[3]);
        }
    } else if fmt == 2 {
        let pool: Vec<u32> = back.iter().take(60).chain(src.iter().take(60)).copied().collect();
        for (k, p) in back.iter_mut().enumerate() {
            *p = pool[(k * 7 + (k >> 5)) % 60];
        }
        for (k, p) in src.iter_mut().enumerate() {
            *p = pool[60 + (k * 11 + (k >> 4)) % 60];
        }
    }
    let n = back.len();
    back[n - 1] = back[0];
    src[n - 1] = src[0];
    Spec { family: if fmt == 1 { "random-grayscale-sprite" } else if fmt == 2 { "random-indexed-sprite" } else if tilemap_top { "random-tilemap-source" } else if biased { "boundary-biased-random" } else { "uniform-random" }, mode, lop, cop, w: 128, h: 128, back, src, descr: format!("seed {}{}", seed, if tilemap_top { ", source layer is a tilemap" } else { "" }), tilemap_top, fmt }
}

#[derive(Clone, Debug)]
pub enum Job {
    /// a tall stack of layers (fillers repeating one cel, then varied layers) checked layer by layer
    Stack(u64),
    Channel(u16, u8, u8, u8, u8),
    Hsl(u16, usize, u64, u8, u8, u8, u8),
    Random(u16, u64, bool),
}

pub const HSL_VALS_QUICK: [u8; 8] = [0, 1, 64, 127, 128, 200, 254, 255];
pub const HSL_VALS_THOROUGH: [u8; 16] = [0, 1, 2, 32, 63, 64, 100, 127, 128, 129, 180, 200, 220, 253, 254, 255];

pub fn job_spec(j: &Job) -> Spec {
    match j {
        Job::Channel(m, ba, sa, l, c) => spec_channel(*m, *ba, *sa, *l, *c),
        Job::Hsl(m, which, block, ba, sa, l, c) => spec_hsl(*m, if *which == 0 { &HSL_VALS_QUICK[..] } else { &HSL_VALS_THOROUGH[..] }, *block, *ba, *sa, *l, *c),
        Job::Random(m, s, b) => spec_random(*m, *s, *b),
        Job::Stack(_) => unreachable!("stack jobs have their own checker"),
    }
}

pub fn job_json(j: &Job) -> serde_json::Value {
    match j {
        Job::Channel(m, ba, sa, l, c) => json!({"job": "channel", "mode": m, "ba": ba, "sa": sa, "lop": l, "cop": c}),
        Job::Hsl(m, w, b, ba, sa, l, c) => json!({"job": "hsl", "mode": m, "vals": w, "block": b, "ba": ba, "sa": sa, "lop": l, "cop": c}),
        Job::Random(m, s, b) => json!({"job": "random", "mode": m, "seed": s, "biased": b}),
        Job::Stack(s) => json!({"job": "stack", "seed": s}),
    }
}

pub fn job_from_json(v: &serde_json::Value) -> Option<Job> {
    let g = |k: &str| v.get(k).and_then(|x| x.as_u64());
    match v.get("job")?.as_str()? {
        "channel" => Some(Job::Channel(g("mode")? as u16, g("ba")? as u8, g("sa")? as u8, g("lop")? as u8, g("cop")? as u8)),
        "hsl" => Some(Job::Hsl(g("mode")? as u16, g("vals")? as usize, g("block")?, g("ba")? as u8, g("sa")? as u8, g("lop")? as u8, g("cop")? as u8)),
        "random" => Some(Job::Random(g("mode")? as u16, g("seed")?, v.get("biased")?.as_bool()?)),
        "stack" => Some(Job::Stack(g("seed")?)),
        _ => None,
    }
}

pub fn jobs(seed: u64, thorough: bool, for_c17: bool) -> Vec<Job> {
    let mut v = vec![];
    let mut r = Rng(mix(seed, 0xC03));
    // family 1
    let mut alphas: Vec<u8> = EDGE.to_vec();
    alphas.push(r.next() as u8);
    alphas.push(r.next() as u8);
    if thorough && !for_c17 {
        // complete (b, s, Ba, Sa) space at full opacity
        for &m in &SEPARABLE {
            for ba in 0..=255u8 {
                for sa in 0..=255u8 {
                    v.push(Job::Channel(m, ba, sa, 255, 255));
                }
            }
        }
        // 16x16 alpha grid x 24 opacity pairs
        let grid: Vec<u8> = (0..16).map(|i| (i * 17) as u8).collect();
        let mut pairs: Vec<(u8, u8)> = OPACITY_PAIRS.to_vec();
        while pairs.len() < 24 {
            pairs.push((r.next() as u8, r.next() as u8));
        }
        for &m in &SEPARABLE {
            for &ba in &grid {
                for &sa in &grid {
                    for &(l, c) in &pairs {
                        if (l, c) != (255, 255) {
                            v.push(Job::Channel(m, ba, sa, l, c));
                        }
                    }
                }
            }
        }
    } else {
        let (al, pairs): (Vec<u8>, Vec<(u8, u8)>) = if thorough { (alphas.clone(), OPACITY_PAIRS.to_vec()) } else if for_c17 { (vec![0, 1, 128, 255, alphas[8]], OPACITY_PAIRS[..5].to_vec()) } else { (alphas.clone(), OPACITY_PAIRS[..6].to_vec()) };
        for &m in &SEPARABLE {
            for &ba in &al {
                for &sa in &al {
                    // all opacity pairs on the alpha diagonal and corners, the first two elsewhere
                    let np = if ba == sa || ba == 255 || sa == 255 { pairs.len() } else { 1 };
                    for &(l, c) in &pairs[..np] {
                        v.push(Job::Channel(m, ba, sa, l, c));
                    }
                }
            }
        }
    }
    // family 2
    let (which, nvals) = if thorough { (1usize, 16u64) } else { (0usize, 8u64) };
    let blocks = nvals.pow(6) / 65536;
    let hsl_alpha: Vec<(u8, u8)> = if thorough { vec![(255, 255), (128, 255), (255, 128), (1, 254), (77, 200)] } else { vec![(255, 255), (128, 200), (255, 1)] };
    for &m in &HSL {
        for &(ba, sa) in &hsl_alpha {
            for &(l, c) in if thorough { &OPACITY_PAIRS[..4] } else { &OPACITY_PAIRS[..2] } {
                if (ba, sa) != (255, 255) && (l, c) != (255, 255) && !thorough {
                    continue;
                }
                let step = if thorough && (ba, sa, l, c) != (255, 255, 255, 255) { 4 } else { 1 };
                let mut b = 0;
                while b < blocks {
                    v.push(Job::Hsl(m, which, b, ba, sa, l, c));
                    b += step;
                }
            }
        }
    }
    // tall stacks
    for k in 0..if thorough { 1500u64 } else { 120 } {
        v.push(Job::Stack(mix(seed, 0x57AC0000 + k)));
    }
    // families 3 and 4
    let nrand = if thorough { 400 } else { 24 };
    for m in 0..19u16 {
        for k in 0..nrand {
            v.push(Job::Random(m, mix(seed, (m as u64) << 32 | k as u64), k % 2 == 1));
        }
    }
    v
}

// ---------------------------------------------------------------- reference self-validation

/// Apply the reference to the two decoded layers of the repository's blend_*.aseprite files and
/// compare with the Aseprite-exported PNGs. A mismatch is a harness fault, not a violation.
pub fn validate_reference() -> Result<(u64, u64), String> {
    let dir = "/repo/tests/data";
    let mut files = 0u64;
    let mut pixels = 0u64;
    let rd = std::fs::read_dir(dir).map_err(|e| e.to_string())?;
    let mut names: Vec<String> = rd.filter_map(|e| e.ok()).map(|e| e.file_name().to_string_lossy().to_string()).filter(|n| n.starts_with("blend_") && n.ends_with(".aseprite")).collect();
    names.sort();
    for n in names {
        let stem = n.trim_end_matches(".aseprite");
        let png = format!("{}/{}.png", dir, stem);
        let f = AsepriteFile::read_file(std::path::Path::new(&format!("{}/{}", dir, n))).map_err(|e| format!("{}: {}", n, e))?;
        if f.num_layers() != 2 || f.num_frames() != 1 {
            continue;
        }
        let want = match image::open(&png) {
            Ok(i) => i.to_rgba8(),
            Err(_) => continue,
        };
        let mode = crate::observe::blend_id(f.layer(1).blend_mode());
        let lop = f.layer(1).opacity();
        let l0: Vec<u32> = f.cel(0, 0).image().as_raw().chunks_exact(4).map(|c| pack(c[0], c[1], c[2], c[3])).collect();
        let l1: Vec<u32> = f.cel(0, 1).image().as_raw().chunks_exact(4).map(|c| pack(c[0], c[1], c[2], c[3])).collect();
        if f.layer(0).opacity() != 255 || lop != 255 || f.layer(0).blend_mode() != asefile::BlendMode::Normal {
            continue;
        }
        let zeros = vec![0u32; l0.len()];
        let (bottom, _) = ref_blend(0, &zeros, &l0, 255);
        let (out, undef) = ref_blend(mode, &bottom, &l1, 255);
        if want.width() as usize * want.height() as usize != out.len() {
            return Err(format!("{}: size mismatch", n));
        }
        for (i, p) in want.pixels().enumerate() {
            let w = p.0;
            let g = unpack(out[i]);
            if undef[i] != 0 {
                return Err(format!("{}: reference undefined at pixel {}", n, i));
            }
            if !(g == w || (g[3] == 0 && w[3] == 0)) {
                return Err(format!("{}: reference gives {:?}, Aseprite exported {:?} at pixel {} (backdrop {:?}, source {:?})", n, g, w, i, unpack(l0[i]), unpack(l1[i])));
            }
        }
        files += 1;
        pixels += out.len() as u64;
    }
    Ok((files, pixels))
}

/// A tall stack: 3..310 layers over a tiny canvas. Most layers repeat one cel (what duplicating a layer many
/// times produces), so equal (backdrop, source) pairs recur hundreds of layers apart with other modes and
/// opacities. C03: every prefix fold must equal the reference fold. C17: a layer whose opacity product is 0 or
/// whose pixels are fully transparent must leave the canvas unchanged; alpha must equal the Normal-mode alpha.
pub fn check_stack(seed: u64, c17: bool) -> CheckResult {
    let mut r = Rng(seed);
    if r.next() % 3 == 0 {
        return check_periodic_stack(seed, c17);
    }
    let (w, h) = (1 + (r.next() % 3) as u16, 1 + (r.next() % 2) as u16);
    let n = (w * h) as usize;
    let nl = match r.next() % 4 {
        0 => 3 + (r.next() % 20) as usize,
        1 => 250 + (r.next() % 12) as usize,
        _ => 257 + (r.next() % 54) as usize,
    };
    let rand_px = |r: &mut Rng| -> Vec<u32> { (0..n).map(|_| { let v = r.next(); pack(v as u8, (v >> 8) as u8, (v >> 16) as u8, [255u8, 255, 128, 0, 1, 77][(v >> 24) as usize % 6]) }).collect() };
    let proto = rand_px(&mut r);
    let proto2 = rand_px(&mut r);
    let mut layers: Vec<(u16, u8, u8, Vec<u32>)> = vec![];
    for i in 0..nl {
        let px = match r.next() % 8 {
            0 => rand_px(&mut r),
            1 | 2 => proto2.clone(),
            _ => proto.clone(),
        };
        let mode = if r.next() % 3 == 0 { (r.next() % 19) as u16 } else if i % 2 == 0 { 0 } else { 1 + (i as u16 * 5) % 18 };
        let lop = [255u8, 255, 255, 0, 128, 1][(r.next() % 6) as usize];
        let cop = [255u8, 255, 0, 200, 255, 255][(r.next() % 6) as usize];
        layers.push((mode, lop, cop, px));
    }
    let mut s = Sprite::empty(w, h, Fmt::Rgba);
    for (i, (mode, lop, cop, px)) in layers.iter().enumerate() {
        s.layers.push(Layer { flags: LF_VISIBLE, kind: LayerKind::Image, level: 0, blend: *mode, opacity: *lop, name: format!("s{}", i), user_data: None });
        s.frames[0].cels.push(Cel { layer: i as u16, x: 0, y: 0, opacity: *cop, content: CelContent::Image { w, h, pixels: to_bytes(px) }, user_data: None });
    }
    let mut plan = Plan::plain();
    plan.compress = 0;
    let enc = encode(&s, &plan);
    let f = AsepriteFile::read(&enc.bytes[..]).map_err(|e| Failure::new("load-error", format!("stack sprite failed to load: {}", e)))?;
    let got: Vec<u32> = f.frame(0).image().as_raw().chunks_exact(4).map(|c| pack(c[0], c[1], c[2], c[3])).collect();
    // reference fold
    let mut acc = vec![0u32; n];
    let mut zero_layers = 0u64;
    for (mode, lop, cop, px) in &layers {
        let op = mul_un8(*lop as i32, *cop as i32);
        let (next, undef) = ref_blend(*mode, &acc, px, op);
        if undef.iter().any(|u| *u != 0) {
            return Ok(Outcome::new(false, seed).label("stack-reference-undefined"));
        }
        if c17 && (op == 0 || px.iter().all(|p| p >> 24 == 0)) {
            zero_layers += 1;
        }
        acc = next;
    }
    let detail = || json!({"job": "stack", "seed": seed, "layers": nl, "canvas": [w, h], "first_layers": layers.iter().take(6).map(|(m, l, c, p)| json!({"mode": MODE_NAMES[*m as usize], "lop": l, "cop": c, "px0": unpack(p[0])})).collect::<Vec<_>>(), "last_layers": layers.iter().rev().take(4).map(|(m, l, c, p)| json!({"mode": MODE_NAMES[*m as usize], "lop": l, "cop": c, "px0": unpack(p[0])})).collect::<Vec<_>>()});
    if !c17 {
        for i in 0..n {
            if got[i] != acc[i] {
                return Err(Failure::new("blend-mismatch:stack", format!("a stack of {} layers renders pixel {} as {:?}; folding Aseprite's blend functions over the same layers gives {:?}", nl, i, unpack(got[i]), unpack(acc[i]))).with(detail()));
            }
        }
    } else {
        // law check without the reference: drop every layer that must be a no-op (zero opacity product or fully
        // transparent pixels over a visible backdrop) and render again - the image must not change
        let mut s2 = Sprite::empty(w, h, Fmt::Rgba);
        for (mode, lop, cop, px) in layers.iter() {
            let op = mul_un8(*lop as i32, *cop as i32);
            if op == 0 || px.iter().all(|p| p >> 24 == 0) {
                continue;
            }
            let li = s2.layers.len();
            s2.layers.push(Layer { flags: LF_VISIBLE, kind: LayerKind::Image, level: 0, blend: *mode, opacity: *lop, name: format!("s{}", li), user_data: None });
            s2.frames[0].cels.push(Cel { layer: li as u16, x: 0, y: 0, opacity: *cop, content: CelContent::Image { w, h, pixels: to_bytes(px) }, user_data: None });
        }
        let enc2 = encode(&s2, &plan);
        let f2 = AsepriteFile::read(&enc2.bytes[..]).map_err(|e| Failure::new("load-error", format!("stack sprite failed to load: {}", e)))?;
        let got2: Vec<u32> = f2.frame(0).image().as_raw().chunks_exact(4).map(|c| pack(c[0], c[1], c[2], c[3])).collect();
        for i in 0..n {
            let (a, b) = (unpack(got[i]), unpack(got2[i]));
            if a != b && !(a[3] == 0 && b[3] == 0) {
                return Err(Failure::new("law:noop-layers-in-stack", format!("a stack of {} layers renders pixel {} as {:?}, but {:?} once its {} no-op layers (zero opacity product or fully transparent pixels) are removed", nl, i, a, b, zero_layers)).with(detail()));
            }
        }
    }
    let mut o = Outcome::new(nl >= 3, seed);
    o.labels.push("family-tall-stack".into());
    if nl > 256 {
        o.labels.push("stack>256-layers".into());
    }
    o.counters.push(("tuples", (n * nl) as u64));
    o.sample = Some(json!({"family": "tall-stack", "layers": nl, "canvas": [w, h]}));
    Ok(o)
}

/// Tall stack, periodic variant: layer i paints ONE fresh (still transparent) canvas pixel with colour
/// C[i mod P] (P in {64, 128, 255, 256, 257, 512} distinct colours), with mode and opacities varying from layer
/// to layer. The same (backdrop, source) pair therefore recurs exactly P layers apart and never in between -
/// the access pattern that small result caches with wrapping tags get wrong. Oracle: reference fold (C03) or
/// "removing the no-op layers does not change the image" (C17).
pub fn check_periodic_stack(seed: u64, c17: bool) -> CheckResult {
    let mut r = Rng(seed ^ 0x9E51);
    let period = [64usize, 128, 255, 256, 257, 512, 256, 256][(r.next() % 8) as usize];
    let nl = period + 1 + (r.next() % 60) as usize;
    let (w, h) = (24u16, ((nl + 23) / 24) as u16);
    let n = w as usize * h as usize;
    let colours: Vec<u32> = (0..period).map(|k| { let v = r.next(); pack(v as u8, (v >> 8) as u8, k as u8, 255 - (k % 3) as u8 * 60) }).collect();
    let mut layers: Vec<(u16, u8, u8, usize, u32)> = vec![];
    for i in 0..nl {
        let mode = if r.next() % 2 == 0 { 0 } else { (r.next() % 19) as u16 };
        let lop = [255u8, 255, 0, 128, 255, 60][(r.next() % 6) as usize];
        let cop = [255u8, 0, 255, 200, 255, 255][(r.next() % 6) as usize];
        layers.push((mode, lop, cop, i, colours[i % period]));
    }
    let build = |keep: &dyn Fn(u8, u8) -> bool| -> Result<Vec<u32>, Failure> {
        let mut s = Sprite::empty(w, h, Fmt::Rgba);
        for (mode, lop, cop, pos, col) in layers.iter() {
            if !keep(*lop, *cop) {
                continue;
            }
            let li = s.layers.len();
            s.layers.push(Layer { flags: LF_VISIBLE, kind: LayerKind::Image, level: 0, blend: *mode, opacity: *lop, name: format!("p{}", li), user_data: None });
            s.frames[0].cels.push(Cel { layer: li as u16, x: (*pos % 24) as i16, y: (*pos / 24) as i16, opacity: *cop, content: CelContent::Image { w: 1, h: 1, pixels: col.to_le_bytes().to_vec() }, user_data: None });
        }
        let mut plan = Plan::plain();
        plan.compress = 0;
        let enc = encode(&s, &plan);
        let f = AsepriteFile::read(&enc.bytes[..]).map_err(|e| Failure::new("load-error", format!("stack sprite failed to load: {}", e)))?;
        Ok(f.frame(0).image().as_raw().chunks_exact(4).map(|c| pack(c[0], c[1], c[2], c[3])).collect())
    };
    let got = build(&|_, _| true)?;
    let detail = || json!({"job": "stack", "seed": seed, "variant": "periodic", "period": period, "layers": nl});
    if !c17 {
        let mut acc = vec![0u32; n];
        for (mode, lop, cop, pos, col) in &layers {
            let op = mul_un8(*lop as i32, *cop as i32);
            let (next, _) = ref_blend(*mode, &acc[*pos..*pos + 1], &[*col], op);
            acc[*pos] = next[0];
        }
        for i in 0..n {
            if got[i] != acc[i] {
                return Err(Failure::new("blend-mismatch:stack", format!("periodic stack (period {}, {} layers): pixel {} is {:?}, Aseprite reference {:?} (layer {}: mode {}, opacities {}/{}, colour {:?})", period, nl, i, unpack(got[i]), unpack(acc[i]), i, MODE_NAMES[layers.get(i).map_or(0, |l| l.0) as usize], layers.get(i).map_or(0, |l| l.1), layers.get(i).map_or(0, |l| l.2), unpack(layers.get(i).map_or(0, |l| l.4)))).with(detail()));
            }
        }
    } else {
        let got2 = build(&|lop, cop| mul_un8(lop as i32, cop as i32) != 0)?;
        for i in 0..n {
            let (a, b) = (unpack(got[i]), unpack(got2[i]));
            if a != b && !(a[3] == 0 && b[3] == 0) {
                return Err(Failure::new("law:noop-layers-in-stack", format!("periodic stack (period {}, {} layers): pixel {} is {:?}, but {:?} once the layers with a zero opacity product are removed", period, nl, i, a, b)).with(detail()));
            }
        }
    }
    let mut o = Outcome::new(true, seed ^ 0x9E51);
    o.labels.push("family-tall-stack".into());
    o.labels.push(format!("stack-period-{}", period));
    o.counters.push(("tuples", nl as u64));
    o.sample = Some(json!({"family": "tall-stack-periodic", "layers": nl, "period": period}));
    Ok(o)
}

fn run_jobs(run: &mut Run, js: &[Job], c17: bool) {
    let results = par_chunks(
        16,
        js.len() as u64,
        || (Stats::default(), Vec::<Violation>::new()),
        |acc, i| {
            let j = &js[i as usize];
            let r = if let Job::Stack(sd) = j {
                check_guarded(|| check_stack(*sd, c17))
            } else {
                let spec = job_spec(j);
                if c17 { check_guarded(|| check_c17(&spec)) } else { check_guarded(|| check_c03(&spec)) }
            };
            match r {
                Ok(o) => acc.0.record(&o),
                Err(f) => {
                    acc.0.evaluations += 1;
                    if acc.1.len() < 3 && !acc.1.iter().any(|x| x.failure.signature == f.signature) {
                        acc.1.push(Violation { case: job_json(j), failure: f });
                    }
                }
            }
        },
    );
    for (st, vs) in results {
        run.stats.merge(st);
        for v in vs {
            if run.is_known(&v.failure.signature) {
                *run.stats.excluded_known.entry(v.failure.signature.clone()).or_insert(0) += 1;
                continue;
            }
            if run.violations.len() < 8 && !run.violations.iter().any(|x| x.failure.signature == v.failure.signature) {
                run.violations.push(v);
            }
        }
    }
}

pub fn run(run: &mut Run) {
    run.rule = "a case is one generated two-layer probe sprite rendered through Frame::image (bottom layer Normal 255/255 carries the backdrop pixels verbatim, top layer carries mode, layer opacity and cel opacity); families: (1) channel-exhaustive 256x256 squares for the 15 separable modes (every (backdrop channel, source channel) pair in each channel) over a set of (Ba, Sa, layer opacity, cel opacity) - thorough: all 256x256 (Ba,Sa) at full opacity, i.e. the complete (b,s,Ba,Sa) space, plus a 16x16 alpha grid x 23 opacity pairs; (2) colour grids forcing every ordering/tie pattern of (r,g,b) on both sides for the 4 HSL modes; (3) uniform random tuples, all 19 modes; (4) boundary-biased random tuples; a quarter of the random sprites deliver the source pixels through a tilemap cel (one tile holding the source image) so that the tilemap compositing path obeys the same arithmetic. Oracle: bit-exact equality on all four channels with Aseprite's C++ blend functions (cref/aseprite_blend.cc), which are first re-validated against the Aseprite-exported blend_*.png files. non-trivial sprite: >= 25% of its tuples have Ba>0, Sa>0 and a non-zero opacity product; distinct by content hash; tuple counts in counters".into();
    run.assumptions = vec!["trusted base: verbatim excerpts from ref/dummy.cc and macro texts quoted in src/blend.rs; the remaining functions are a transcription of upstream blend_funcs.cpp validated against 19 x 65536 Aseprite-exported pixels at opacity 255".into(), "compiled with clang++ -O1 -ffp-contract=off".into()];
    match validate_reference() {
        Ok((files, pixels)) => {
            run.extra.insert("reference_validated_files".into(), json!(files));
            run.extra.insert("reference_validated_pixels".into(), json!(pixels));
            if files == 0 {
                run.extra.insert("reference_validation".into(), json!("skipped: no blend_*.aseprite/png pairs found under /repo/tests/data"));
            }
        }
        Err(e) => {
            run.inconclusive = Some(format!("reference self-validation failed (harness fault): {}", e));
            return;
        }
    }
    // before anything else in this process family: first use of every mode under contention (fresh processes)
    run_first_use(run, false);
    let js = jobs(run.seed, run.thorough(), false);
    run.extra.insert("jobs".into(), json!(js.len()));
    if run.thorough() {
        run.exhaustive = Some(true);
        run.extra.insert("exhaustive_subspace".into(), json!("family 1: all (b, s, Ba, Sa) in 256^4 per separable mode at layer/cel opacity 255/255"));
    }
    run_jobs(run, &js, false);
}

pub fn run_c17(run: &mut Run) {
    run.rule = "the C03 enumerations (channel-exhaustive squares, HSL colour grids, uniform and boundary-biased random tuples; same generator) rendered through Frame::image, each also rendered with the top layer in Normal mode. Laws checked per tuple, no reference implementation: alpha(result) = alpha(Normal result); Sa = 0 or opacity product = 0 with Ba > 0 => result = backdrop; Ba = 0 => result is the source colour with alpha mul_un8(Sa, product) (transparent equivalence); Normal, product 255, Sa = 255 => result = source; and no overflow check or debug assertion fires (a panic while rendering is the violation). non-trivial sprite: >= 25% tuples with Ba>0, Sa>0, product>0, or tuples from at least two law premises; distinct by content hash".into();
    run.assumptions = vec!["build with overflow-checks and debug-assertions on (profile 'checked')".into()];
    run_first_use(run, true);
    let js = jobs(run.seed, run.thorough(), true);
    run.extra.insert("jobs".into(), json!(js.len()));
    run_jobs(run, &js, true);
}

// ---------------------------------------------------------------- first use under contention

/// Runs in a fresh process (`vcheck --first-use blend <mode> <seed> <c17>`): 16 threads leave a barrier together
/// and each loads, renders and checks the same probe sprite, so that whatever the library sets up the first time a
/// blend mode is used in a process is set up under contention. Prints one JSON line.
pub fn first_use_main(mode: u16, seed: u64, c17: bool) -> ! {
    let spec = std::sync::Arc::new(spec_random(mode, seed, false));
    let barrier = std::sync::Arc::new(std::sync::Barrier::new(16));
    let hs: Vec<_> = (0..16)
        .map(|_| {
            let (spec, barrier) = (spec.clone(), barrier.clone());
            std::thread::Builder::new()
                .stack_size(8 << 20)
                .spawn(move || {
                    barrier.wait();
                    check_guarded(|| if c17 { check_c17(&spec) } else { check_c03(&spec) })
                })
                .unwrap()
        })
        .collect();
    let mut first: Option<Failure> = None;
    let mut bad = 0;
    for h in hs {
        if let Ok(Err(f)) = h.join() {
            bad += 1;
            first.get_or_insert(f);
        }
    }
    match first {
        None => println!("{}", json!({"ok": true})),
        Some(f) => println!("{}", json!({"ok": false, "threads_failing": bad, "signature": f.signature, "msg": f.msg, "detail": f.detail})),
    }
    std::process::exit(0)
}

/// Parent side of the first-use phase: one fresh process per (mode, repetition), run one after the other so that
/// the 16 threads of each really start together.
fn run_first_use(run: &mut Run, c17: bool) {
    let exe = std::env::current_exe().expect("own executable path");
    let reps = if run.thorough() { 12 } else { 3 };
    for m in 0..19u16 {
        for k in 0..reps {
            let seed = mix(run.seed, 0xF1257 + ((m as u64) << 8) + k);
            let out = std::process::Command::new(&exe).arg("--first-use").arg("blend").arg(m.to_string()).arg(seed.to_string()).arg(if c17 { "1" } else { "0" }).output().expect("spawn vcheck --first-use");
            let line = String::from_utf8_lossy(&out.stdout).lines().last().unwrap_or("").to_string();
            let case = || json!({"job": "first-use", "mode": m, "seed": seed});
            let res = match serde_json::from_str::<serde_json::Value>(&line) {
                Ok(v) if v["ok"] == json!(true) => Ok(Outcome::new(true, mix(seed, m as u64)).label("first-use-under-contention").with_sample(json!({"mode": m, "threads": 16, "fresh_process": true}))),
                // all 16 threads wrong: not a race, the plain failure
                Ok(v) if v["threads_failing"] == json!(16) => Err(Failure::new(v["signature"].as_str().unwrap_or("?").to_string(), v["msg"].as_str().unwrap_or("?").to_string()).with(v["detail"].clone())),
                Ok(v) => Err(Failure::new(format!("first-use:{}", v["signature"].as_str().unwrap_or("?")), format!("wrong result when 16 threads use blend mode {} for the first time in a process ({} of 16 threads): {}", m, v["threads_failing"], v["msg"].as_str().unwrap_or("?"))).with(v["detail"].clone())),
                Err(_) => Err(Failure::new("first-use:process-died", format!("process died while 16 threads used blend mode {} for the first time: status {:?}, stderr {}", m, out.status, String::from_utf8_lossy(&out.stderr).chars().take(300).collect::<String>()))),
            };
            run.direct(case, res);
        }
    }
}

fn replay_first_use(case: &serde_json::Value, c17: bool) -> Option<CheckResult> {
    if case.get("job").and_then(|j| j.as_str()) != Some("first-use") {
        return None;
    }
    let m = case.get("mode").and_then(|x| x.as_u64()).unwrap_or(0);
    let seed = case.get("seed").and_then(|x| x.as_u64()).unwrap_or(0);
    let exe = std::env::current_exe().expect("own executable path");
    // a race is not deterministic: try a number of fresh processes
    for _ in 0..40 {
        let out = std::process::Command::new(&exe).arg("--first-use").arg("blend").arg(m.to_string()).arg(seed.to_string()).arg(if c17 { "1" } else { "0" }).output().expect("spawn");
        let line = String::from_utf8_lossy(&out.stdout).lines().last().unwrap_or("").to_string();
        match serde_json::from_str::<serde_json::Value>(&line) {
            Ok(v) if v["ok"] == json!(true) => {}
            Ok(v) => return Some(Err(Failure::new(format!("first-use:{}", v["signature"].as_str().unwrap_or("?")), v["msg"].as_str().unwrap_or("?").to_string()))),
            Err(_) => return Some(Err(Failure::new("first-use:process-died", format!("{:?}", out.status)))),
        }
    }
    Some(Ok(Outcome::new(true, 0)))
}

pub fn replay(case: &serde_json::Value) -> CheckResult {
    if let Some(r) = replay_first_use(case, false) {
        return r;
    }
    let j = job_from_json(case).ok_or_else(|| Failure::new("bad-replay", "no job in replay file"))?;
    if let Job::Stack(sd) = j {
        return check_guarded(|| check_stack(sd, false));
    }
    check_guarded(|| check_c03(&job_spec(&j)))
}

pub fn replay_c17(case: &serde_json::Value) -> CheckResult {
    if let Some(r) = replay_first_use(case, true) {
        return r;
    }
    let j = job_from_json(case).ok_or_else(|| Failure::new("bad-replay", "no job in replay file"))?;
    if let Job::Stack(sd) = j {
        return check_guarded(|| check_stack(sd, true));
    }
    check_guarded(|| check_c17(&job_spec(&j)))
}
