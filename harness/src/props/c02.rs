//! C02 — frame image = bottom-to-top composition of visible layers.
//! The two-layer blend function B is obtained from the library through probe sprites, so this
//! check isolates stacking order, visibility gating, offsets/clipping, source indexing, the
//! opacity product, link/tilemap resolution and storage-order independence from blend arithmetic.
use crate::encode::{encode, Plan};
use crate::gen::{build_plan, build_sprite, GenCfg, Tape};
use crate::model::*;
use crate::observe::{canon, Img};
use crate::refimpl;
use crate::runner::*;
use asefile::AsepriteFile;
use serde_json::json;

pub fn cfg() -> GenCfg {
    let mut c = GenCfg::full();
    c.tile_aligned = false;
    c.tags = false;
    c.slices = false;
    c.ext_files = false;
    c.user_data = false;
    c.max_layers = 12;
    c.cel_density = 6;
    c.max_frames = 3;
    c
}

/// B(backdrop, top, mode, opacity) over a whole canvas, computed by the library on a 2-layer sprite.
pub fn probe(w: u16, h: u16, backdrop: &[u8], top: &[u8], mode: u16, opacity: u8) -> Result<Vec<u8>, Failure> {
    let mut s = Sprite::empty(w, h, Fmt::Rgba);
    s.layers.push(Layer { flags: LF_VISIBLE, kind: LayerKind::Image, level: 0, blend: 0, opacity: 255, name: "b".into(), user_data: None });
    s.layers.push(Layer { flags: LF_VISIBLE, kind: LayerKind::Image, level: 0, blend: mode, opacity, name: "t".into(), user_data: None });
    s.frames[0].cels.push(Cel { layer: 0, x: 0, y: 0, opacity: 255, content: CelContent::Image { w, h, pixels: backdrop.to_vec() }, user_data: None });
    s.frames[0].cels.push(Cel { layer: 1, x: 0, y: 0, opacity: 255, content: CelContent::Image { w, h, pixels: top.to_vec() }, user_data: None });
    let mut plan = Plan::plain();
    plan.compress = 0;
    let enc = encode(&s, &plan);
    let f = AsepriteFile::read(&enc.bytes[..]).map_err(|e| Failure::new("probe-load-error", format!("probe sprite failed to load: {}", e)))?;
    Ok(f.frame(0).image().into_raw())
}

pub fn expected_frame(s: &Sprite, fi: usize) -> Result<(Img, u32, bool), Failure> {
    let (w, h) = (s.width, s.height);
    let mut acc = vec![0u8; w as usize * h as usize * 4];
    let mut contributing = 0u32;
    let mut covered = vec![0u8; w as usize * h as usize];
    let mut overlap = false;
    for li in 0..s.layers.len() {
        if !s.layer_visible(li) {
            continue;
        }
        let p = match refimpl::placed(s, fi, li) {
            Some(p) => p,
            None => continue,
        };
        let top = refimpl::cel_on_canvas_raw(s, &p);
        let op = mul_un8(s.layers[li].opacity as i32, p.cel_opacity as i32);
        acc = probe(w, h, &acc, &top, s.layers[li].blend, op)?;
        contributing += 1;
        for j in 0..p.h as i32 {
            for i in 0..p.w as i32 {
                let (x, y) = (p.x + i, p.y + j);
                if x >= 0 && y >= 0 && x < w as i32 && y < h as i32 {
                    let k = y as usize * w as usize + x as usize;
                    if covered[k] != 0 {
                        overlap = true;
                    }
                    covered[k] = 1;
                }
            }
        }
    }
    let mut img = Img { w: w as u32, h: h as u32, px: acc };
    for p in img.px.chunks_exact_mut(4) {
        if p[3] == 0 {
            p[0] = 0;
            p[1] = 0;
            p[2] = 0;
        }
    }
    Ok((img, contributing, overlap))
}

pub fn check(tape: &[u32]) -> CheckResult {
    let mut t = Tape::new(tape);
    let s = build_sprite(&mut t, &cfg());
    let plan = build_plan(&mut t);
    let enc = encode(&s, &plan);
    let detail = |extra: serde_json::Value| json!({"model": super::c01::summarize(&s), "plan": format!("{:?}", plan), "input_hex": if enc.bytes.len() < 8000 { hex(&enc.bytes) } else { String::new() }, "where": extra});
    let f = AsepriteFile::read(&enc.bytes[..]).map_err(|e| Failure::new("load-error", format!("well-formed file failed to load: {}", e)).with(detail(json!(null))))?;
    let mut nontrivial = false;
    let mut labels: Vec<String> = vec![];
    for fi in 0..s.frames.len() {
        let got = canon(&f.frame(fi as u32).image());
        if (got.w, got.h) != (s.width as u32, s.height as u32) {
            return Err(Failure::new("frame-dims", format!("frame {} image is {}x{}, canvas {}x{}", fi, got.w, got.h, s.width, s.height)).with(detail(json!({"frame": fi}))));
        }
        let (want, contributing, overlap) = expected_frame(&s, fi)?;
        if let Some((x, y, a, b)) = got.first_diff(&want) {
            let stack: Vec<String> = (0..s.layers.len())
                .map(|li| format!("L{} vis={} blend={} op={} cel={:?}", li, s.layer_visible(li), s.layers[li].blend, s.layers[li].opacity, s.cel(fi, li).map(|c| (c.x, c.y, c.opacity, match &c.content { CelContent::Image { w, h, .. } => format!("img {}x{}", w, h), CelContent::Link { frame } => format!("link {}", frame), CelContent::Tilemap { w, h, .. } => format!("tm {}x{}", w, h) }))))
                .collect();
            return Err(Failure::new("frame-image", format!("frame {} differs at ({},{}): got {:?}, expected {:?}", fi, x, y, a, b)).with(detail(json!({"frame": fi, "stack": stack}))));
        }
        if contributing >= 2 && overlap {
            nontrivial = true;
            labels.push("overlapping-stack".into());
        }
        for li in 0..s.layers.len() {
            if let Some(p) = refimpl::placed(&s, fi, li) {
                let vis = s.layer_visible(li);
                if !vis {
                    labels.push("hidden-layer-with-cel".into());
                    nontrivial = true;
                    if s.layers[li].flags & LF_VISIBLE != 0 {
                        labels.push("hidden-through-group".into());
                    }
                    continue;
                }
                let clipped = p.x < 0 || p.y < 0 || p.x + p.w as i32 > s.width as i32 || p.y + p.h as i32 > s.height as i32;
                if clipped {
                    labels.push("clipped".into());
                    nontrivial = true;
                }
                if s.layers[li].blend != 0 {
                    labels.push(format!("mode-{}", s.layers[li].blend));
                    nontrivial = true;
                }
                if mul_un8(s.layers[li].opacity as i32, p.cel_opacity as i32) < 255 {
                    labels.push("opacity<255".into());
                    nontrivial = true;
                }
                match s.cel(fi, li).map(|c| &c.content) {
                    Some(CelContent::Link { .. }) => labels.push("link".into()),
                    Some(CelContent::Tilemap { .. }) => labels.push("tilemap".into()),
                    _ => {}
                }
            }
        }
    }
    if plan.shuffle {
        labels.push("cel-order-shuffled".into());
    }
    labels.push(format!("fmt-{:?}", s.fmt));
    labels.sort();
    labels.dedup();
    let mut o = Outcome::new(nontrivial, hash_bytes(&enc.bytes));
    o.labels = labels;
    o.sample = Some(json!({"model": super::c01::summarize(&s), "file_bytes": enc.bytes.len()}));
    Ok(o)
}

pub fn run(run: &mut Run) {
    run.rule = "cases: well-formed sprites with 1-8 layers (image, group, tilemap; hidden layers and hidden groups), all 19 blend modes, layer and cel opacity 0..255, cels inside/straddling/off canvas and at i16 extremes, empty/linked/tilemap cels, all pixel formats, shuffled cel chunk order. Oracle: fold over model-visible layers bottom-to-top of a two-layer blend B obtained from the library itself via full-canvas probe sprites, with the harness's own placement, clipping, opacity product and link/tilemap resolution. non-trivial: >=2 contributing overlapping layers, or a clipped cel, or a non-Normal mode, or opacity product < 255, or a hidden layer that has a cel; distinct by file hash".into();
    run.assumptions = vec!["B for a full-canvas two-layer stack is taken from the library (C03/C17 check the arithmetic); mul_un8(x,255)=x".into(), "fully transparent pixels compare equal regardless of RGB".into()];
    let (lanes, cases) = if run.thorough() { (16, 20000) } else { (16, 4000) };
    run_tapes(run, lanes, cases, 1200, &check);
    // thorough only: coverage-guided search over generator tapes with the same oracle
    crate::fuzzstage::fuzz_tapes(run, 1200, 120);
}

pub fn replay(case: &serde_json::Value) -> CheckResult {
    let tape = tape_from_case(case).ok_or_else(|| Failure::new("bad-replay", "no tape in replay file"))?;
    check_guarded(|| check(&tape))
}
