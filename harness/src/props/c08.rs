//! C08 — tilemap and tileset views agree (relational + model oracle).
use crate::encode::encode;
use crate::gen::{build_plan, build_sprite, GenCfg, Tape};
use crate::model::*;
use crate::observe::canon;
use crate::refimpl::decode_pixels;
use crate::runner::*;
use asefile::AsepriteFile;
use serde_json::json;

pub fn cfg() -> GenCfg {
    let mut c = GenCfg::full();
    c.tile_aligned = true;
    c.flip_bits = true;
    c.max_tile = 24;
    c.canvas_typ = 40;
    c.tags = false;
    c.slices = false;
    c.ext_files = false;
    c.user_data = false;
    c.groups = false;
    c.max_layers = 4;
    c.max_frames = 2;
    c.cel_density = 7;
    c
}

pub fn check(tape: &[u32]) -> CheckResult {
    let mut t = Tape::new(tape);
    let mut c = cfg();
    if t.chance(1, 2) {
        c.max_tile = 6;
        c.canvas_typ = 20;
    }
    let mut s = build_sprite(&mut t, &c);
    // make sure there is something to look at: force a tileset + tilemap layer when absent (by construction)
    if s.tilesets.is_empty() && (s.fmt != Fmt::Indexed || s.effective_palette().map_or(false, |p| p.contains_key(&(s.transparent as u32)))) {
        let tw = 1 + t.below(c.max_tile as u32) as u16;
        let th = 1 + t.below(c.max_tile as u32) as u16;
        let count = 1 + t.below(5);
        let per = tw as usize * th as usize * s.fmt.bpp();
        let mut px = match s.fmt {
            Fmt::Indexed => vec![s.transparent; per],
            _ => vec![0u8; per],
        };
        let pal: Vec<u8> = s.effective_palette().map(|m| m.keys().filter(|k| **k < 256).map(|k| *k as u8).collect()).unwrap_or_default();
        let mut r = crate::encode::Rng(t.raw64());
        for i in 0..per * (count as usize - 1) {
            px.push(match s.fmt {
                Fmt::Indexed => pal[(r.next() % pal.len() as u64) as usize],
                Fmt::Gray => r.next() as u8,
                Fmt::Rgba => {
                    if i % 4 == 3 {
                        [0u8, 255, 255, 128][(r.next() % 4) as usize]
                    } else {
                        r.next() as u8
                    }
                }
            });
        }
        s.tilesets.push(Tileset { id: 3, flags: 6, count, tw, th, base_index: 1, name: "forced".into(), ext: (0, 0), pixels: px });
        let li = s.layers.len();
        s.layers.push(Layer { flags: 3, kind: LayerKind::Tilemap { tileset: 3 }, level: 0, blend: 0, opacity: t.u8_biased(), name: "tm".into(), user_data: None });
        let (mw, mh) = (1 + t.below(6) as u16, 1 + t.below(6) as u16);
        let tiles: Vec<u32> = (0..mw as usize * mh as usize).map(|_| (r.next() % count as u64) as u32).collect();
        let ox = t.range(-(mw as i64), (s.width as i64 / tw as i64) + 1) * tw as i64;
        let oy = t.range(-(mh as i64), (s.height as i64 / th as i64) + 1) * th as i64;
        s.frames[0].cels.push(Cel { layer: li as u16, x: ox as i16, y: oy as i16, opacity: t.u8_biased(), content: CelContent::Tilemap { w: mw, h: mh, bits: 32, masks: [0x1fffffff, 0x20000000, 0x40000000, 0x80000000], tiles }, user_data: None });
    }
    // extreme canvas on one axis (tilemap size arithmetic near the u16 limit); the other axis stays tiny
    // so that rendering remains cheap
    match t.below(10) {
        0 => {
            s.width = t.pick(&[65535u16, 65534, 40000, 32769, 65535u16.saturating_sub(s.tilesets.first().map_or(0, |x| x.tw)).saturating_add(1)]);
            s.height = 1 + t.below(3) as u16;
        }
        1 => {
            s.height = t.pick(&[65535u16, 65534, 40000, 32769]);
            s.width = 1 + t.below(3) as u16;
        }
        _ => {}
    }
    // now and then a large map (150-200 tiles a side, sometimes 256-300 so that it holds more than 65535 tiles; ids
    // spread over 1234 one-pixel tiles) whose stored tile data is far larger than any decoder's internal buffers, or
    // a short map of very wide (or very tall) tiles whose pixel extent passes 65535
    let big_map = s.fmt == Fmt::Rgba && t.chance(1, 150);
    if big_map {
        let variant = t.below(4);
        let (mw, mh, tw, th, count) = match variant {
            0 | 1 => (150 + t.below(50) as u16, 150 + t.below(50) as u16, 1u16, 1u16, 1234u32),
            2 => (256 + t.below(45) as u16, 256 + t.below(45) as u16, 1, 1, 1234),
            _ => {
                let n = 9 + t.below(4) as u16;
                if t.chance(1, 2) { (n, 1, 8192, 1, 3) } else { (1, n, 1, 8192, 3) }
            }
        };
        let mut r = crate::encode::Rng(t.raw64());
        let tile_px = tw as usize * th as usize;
        let px: Vec<u8> = (0..count as usize * tile_px * 4).map(|i| if i < 4 * tile_px { 0 } else if i % 4 == 3 { 255 } else { r.next() as u8 }).collect();
        if variant < 3 {
            s.width = mw.max(mh);
            s.height = s.width;
        } else {
            // the canvas has to be long enough to show the tiles beyond pixel 65535 of the map, whose offset is a
            // (negative) multiple of the tile size no smaller than i16::MIN
            let long = t.pick(&[65535u16, 50000, 41000]);
            (s.width, s.height) = if tw > 1 { (long, 1 + t.below(2) as u16) } else { (1 + t.below(2) as u16, long) };
        }
        s.tilesets.push(Tileset { id: 77, flags: 6, count, tw, th, base_index: 1, name: "many".into(), ext: (0, 0), pixels: px });
        let li = s.layers.len();
        s.layers.push(Layer { flags: 3, kind: LayerKind::Tilemap { tileset: 77 }, level: 0, blend: 0, opacity: 255, name: "big map".into(), user_data: None });
        let tiles: Vec<u32> = (0..mw as usize * mh as usize).map(|_| (r.next() % count as u64) as u32).collect();
        let back = (-8192i32 * t.below(5) as i32) as i16;
        let (ox, oy) = if variant < 3 { (0i16, 0i16) } else if tw > 1 { (back, 0) } else { (0, back) };
        s.frames[0].cels.push(Cel { layer: li as u16, x: ox, y: oy, opacity: 255, content: CelContent::Tilemap { w: mw, h: mh, bits: 32, masks: [0x1fffffff, 0x20000000, 0x40000000, 0x80000000], tiles }, user_data: None });
    }
    let mut plan = build_plan(&mut t);
    if big_map {
        plan.compress = 1;
        plan.zlevel = 10;
    }
    let enc = encode(&s, &plan);
    let detail = |w: serde_json::Value| json!({"model": super::c01::summarize(&s), "input_hex": if enc.bytes.len() < 8000 { hex(&enc.bytes) } else { String::new() }, "where": w});
    let f = AsepriteFile::read(&enc.bytes[..]).map_err(|e| Failure::new("load-error", format!("well-formed file failed to load: {}", e)).with(detail(json!(null))))?;
    let mut nontrivial = false;
    let mut labels: Vec<String> = vec![];
    let mut maps = 0u64;
    let mut lookups = 0u64;
    // tilesets
    for ts in &s.tilesets {
        let o = f.tilesets().get(ts.id).ok_or_else(|| Failure::new("tileset-missing", format!("tileset {} missing", ts.id)))?;
        let img = o.image();
        let want_dims = (ts.tw as u32, ts.th as u32 * ts.count);
        if img.dimensions() != want_dims {
            return Err(Failure::new("tileset-image-dims", format!("tileset {} image {:?}, expected {:?}", ts.id, img.dimensions(), want_dims)).with(detail(json!({"tileset": ts.id}))));
        }
        let want_px = decode_pixels(&s, &ts.pixels, false);
        let ci = canon(&img);
        for (k, p) in want_px.iter().enumerate() {
            let got = ci.get(k as u32 % ts.tw as u32, k as u32 / ts.tw as u32);
            let w = if p[3] == 0 { [0, 0, 0, 0] } else { *p };
            if got != w {
                return Err(Failure::new("tileset-image-pixels", format!("tileset {} image pixel {} is {:?}, stored {:?}", ts.id, k, got, w)).with(detail(json!({"tileset": ts.id}))));
            }
        }
        // tile_image converts the whole tileset on every call: check every tile of small tilesets and a
        // spread of indices (first, last, around 255/256 and 65535/65536) of large ones
        let tile_indices: Vec<u32> = if ts.count <= 64 { (0..ts.count).collect() } else { [0u32, 1, 2, 254, 255, 256, 257, 65534, 65535, 65536, ts.count / 2, ts.count - 2, ts.count - 1].iter().copied().filter(|i| *i < ts.count).collect() };
        for i in tile_indices {
            let ti = o.tile_image(i);
            if ti.dimensions() != (ts.tw as u32, ts.th as u32) {
                return Err(Failure::new("tile-image-dims", format!("tile_image({}) is {:?}, tile size {}x{}", i, ti.dimensions(), ts.tw, ts.th)).with(detail(json!({"tileset": ts.id}))));
            }
            for y in 0..ts.th as u32 {
                for x in 0..ts.tw as u32 {
                    if ti.get_pixel(x, y) != img.get_pixel(x, i * ts.th as u32 + y) {
                        return Err(Failure::new("tile-image-window", format!("tile_image({}) pixel ({},{}) differs from row {} of the stacked tileset image", i, x, y, i * ts.th as u32 + y)).with(detail(json!({"tileset": ts.id}))));
                    }
                }
            }
        }
    }
    for fi in 0..s.frames.len() {
        for li in 0..s.layers.len() {
            let tm = f.tilemap(li as u32, fi as u32);
            let mc = s.cel(fi, li);
            let (tsid, mw, mh, masks, tiles, cel) = match (&s.layers[li].kind, mc.map(|c| (&c.content, c))) {
                (LayerKind::Tilemap { tileset }, Some((CelContent::Tilemap { w, h, masks, tiles, .. }, c))) => (*tileset, *w as i64, *h as i64, *masks, tiles, c),
                _ => {
                    if tm.is_some() {
                        return Err(Failure::new("tilemap-unexpected", format!("tilemap({},{}) is Some but the model has no tilemap cel there", li, fi)).with(detail(json!({"frame": fi, "layer": li}))));
                    }
                    continue;
                }
            };
            let at = json!({"frame": fi, "layer": li, "cel_xy": [cel.x, cel.y], "stored": [mw, mh]});
            let tm = tm.ok_or_else(|| Failure::new("tilemap-none", format!("tilemap({},{}) is None for a tilemap cel", li, fi)).with(detail(at.clone())))?;
            let ts = s.tileset_by_id(tsid).unwrap();
            let (tw, th) = (ts.tw as i64, ts.th as i64);
            maps += 1;
            let (lw, lh) = ((s.width as i64 + tw - 1) / tw, (s.height as i64 + th - 1) / th);
            if (tm.width() as i64, tm.height() as i64) != (lw, lh) {
                return Err(Failure::new("tilemap-size", format!("tilemap size {}x{}, expected ceil(canvas/tile) = {}x{}", tm.width(), tm.height(), lw, lh)).with(detail(at)));
            }
            if tm.tile_size() != (tw as u32, th as u32) || tm.tileset().id() != tsid {
                return Err(Failure::new("tilemap-tileset", "tile_size/tileset mismatch").with(detail(at)));
            }
            if tm.pixel_offsets() != (cel.x as i32, cel.y as i32) {
                return Err(Failure::new("tilemap-pixel-offsets", format!("pixel_offsets {:?} != cel offset {:?}", tm.pixel_offsets(), (cel.x, cel.y))).with(detail(at)));
            }
            let (ox, oy) = (cel.x as i64 / tw, cel.y as i64 / th);
            if tm.tile_offsets() != (ox as i32, oy as i32) {
                return Err(Failure::new("tilemap-tile-offsets", format!("tile_offsets {:?} != {:?}", tm.tile_offsets(), (ox, oy))).with(detail(at)));
            }
            let expect_id = |x: i64, y: i64| -> (u32, bool) {
                let (sx, sy) = (x - ox, y - oy);
                if sx >= 0 && sy >= 0 && sx < mw && sy < mh {
                    let wd = tiles[(sy * mw + sx) as usize];
                    (wd & masks[0], wd & (masks[1] | masks[2] | masks[3]) != 0)
                } else {
                    (0, false)
                }
            };
            let mut xs: Vec<i64> = (0..lw + 3).collect();
            let mut ys: Vec<i64> = (0..lh + 3).collect();
            for e in [0x7FFF_FFFFi64, 0x8000_0000, 0xFFFF_FFFF, 65535, 65536, ox + mw, oy + mh, ox + mw - 1, oy + mh - 1] {
                if e >= 0 && e <= u32::MAX as i64 {
                    xs.push(e);
                    ys.push(e);
                }
            }
            for &y in &ys {
                for &x in &xs {
                    let got = tm.tile(x as u32, y as u32).id();
                    lookups += 1;
                    let (want, _) = expect_id(x, y);
                    if got != want {
                        return Err(Failure::new("tile-lookup", format!("tile({},{}) = {}, expected {} (tile offsets {:?}, stored {}x{})", x, y, got, want, (ox, oy), mw, mh)).with(detail(at)));
                    }
                }
            }
            // image relation against the library's own tile lookup and tile images
            let img = canon(&tm.image());
            if (img.w, img.h) != (s.width as u32, s.height as u32) {
                return Err(Failure::new("tilemap-image-dims", "tilemap image does not have the canvas size").with(detail(at)));
            }
            let lts = f.tilesets().get(tsid).unwrap();
            let op = mul_un8(s.layers[li].opacity as i32, cel.opacity as i32) as i32;
            let mut tile_imgs: std::collections::HashMap<u32, image::RgbaImage> = std::collections::HashMap::new();
            for py in 0..s.height as i64 {
                for px in 0..s.width as i64 {
                    let (tx, ty) = (px / tw, py / th);
                    let (_, flipped) = expect_id(tx, ty);
                    if flipped {
                        continue;
                    }
                    let id = tm.tile(tx as u32, ty as u32).id();
                    if tile_imgs.len() > 48 {
                        tile_imgs.clear();
                    }
                    let src = tile_imgs.entry(id).or_insert_with(|| lts.tile_image(id)).get_pixel((px % tw) as u32, (py % th) as u32).0;
                    let a = mul_un8(src[3] as i32, op);
                    let want = if a == 0 { [0, 0, 0, 0] } else { [src[0], src[1], src[2], a] };
                    let got = img.get(px as u32, py as u32);
                    if got != want {
                        return Err(Failure::new("tilemap-image-relation", format!("tilemap image pixel ({},{}) is {:?}; tile({},{}) = {} whose pixel ({},{}) is {:?}, opacity product {} -> expected {:?}", px, py, got, tx, ty, id, px % tw, py % th, src, op, want)).with(detail(at)));
                    }
                }
            }
            let off_canvas = cel.x < 0 || cel.y < 0 || (cel.x as i64 + mw * tw) > s.width as i64 || (cel.y as i64 + mh * th) > s.height as i64;
            let smaller = mw < lw || mh < lh || ox > 0 || oy > 0;
            let nodiv = s.width as i64 % tw != 0 || s.height as i64 % th != 0;
            if off_canvas {
                labels.push("map-partly-off-canvas".into());
            }
            if smaller {
                labels.push("map-smaller-than-grid".into());
            }
            if nodiv {
                labels.push("tile-size-not-dividing-canvas".into());
            }
            if cel.x < 0 || cel.y < 0 {
                labels.push("negative-offset".into());
            }
            if masks[0] != 0x1fffffff {
                labels.push("non-standard-bitmask".into());
            }
            if tw != th {
                labels.push("non-square-tile".into());
            }
            if s.width > 32768 || s.height > 32768 {
                labels.push("canvas>32768".into());
            }
            nontrivial |= off_canvas || smaller || nodiv;
        }
    }
    // A linked cel on a tilemap layer that points at a tilemap cel and carries another (tile-aligned) position of
    // its own. The unchanged library refuses such files; a reader that accepts them has to keep the lookup view and
    // the image consistent for the linked cel too (checked with the library's own views only).
    if t.chance(1, 4) && s.width <= 4096 && s.height <= 4096 {
        let mut cands = vec![];
        for (fi, fr) in s.frames.iter().enumerate() {
            for c in &fr.cels {
                if let (LayerKind::Tilemap { tileset }, CelContent::Tilemap { masks, tiles, .. }) = (&s.layers[c.layer as usize].kind, &c.content) {
                    if tiles.iter().all(|w| w & (masks[1] | masks[2] | masks[3]) == 0) {
                        cands.push((fi, c.layer, *tileset, c.x, c.y, c.opacity));
                    }
                }
            }
        }
        if !cands.is_empty() && s.frames.len() < 60000 {
            let (fi, li, tsid, cx, cy, cop) = cands[t.below(cands.len() as u32) as usize];
            let ts = s.tileset_by_id(tsid).unwrap();
            let (tw, th) = (ts.tw as i64, ts.th as i64);
            let mut s2 = s.clone();
            let (dx, dy) = (t.range(-2, 3) * tw, t.range(-2, 3) * th);
            let lx = (cx as i64 + dx).clamp(-32768, 32767) as i16;
            let ly = (cy as i64 + dy).clamp(-32768, 32767) as i16;
            let mut fr = crate::model::Frame { duration: 100, cels: vec![] };
            fr.cels.push(Cel { layer: li, x: lx, y: ly, opacity: cop, content: CelContent::Link { frame: fi as u16 }, user_data: None });
            s2.frames.push(fr);
            let nf = s2.frames.len() - 1;
            let enc2 = encode(&s2, &plan);
            match AsepriteFile::read(&enc2.bytes[..]) {
                Err(_) => labels.push("link-to-tilemap-cel:refused".into()),
                Ok(f2) => {
                    labels.push("link-to-tilemap-cel:accepted".into());
                    if let Some(tm) = f2.tilemap(li as u32, nf as u32) {
                        let at = json!({"linked_tilemap_cel": {"frame": nf, "layer": li, "own_xy": [lx, ly], "target_frame": fi, "target_xy": [cx, cy]}});
                        let img = canon(&tm.image());
                        let lts = f2.tilesets().get(tsid).unwrap();
                        let op = mul_un8(s.layers[li as usize].opacity as i32, cop as i32) as i32;
                        let mut tile_imgs: std::collections::HashMap<u32, image::RgbaImage> = std::collections::HashMap::new();
                        for py in 0..s.height as i64 {
                            for px in 0..s.width as i64 {
                                let id = tm.tile((px / tw) as u32, (py / th) as u32).id();
                                if tile_imgs.len() > 48 {
                                    tile_imgs.clear();
                                }
                                let src = tile_imgs.entry(id).or_insert_with(|| lts.tile_image(id)).get_pixel((px % tw) as u32, (py % th) as u32).0;
                                let a = mul_un8(src[3] as i32, op);
                                let want = if a == 0 { [0, 0, 0, 0] } else { [src[0], src[1], src[2], a] };
                                let got = img.get(px as u32, py as u32);
                                if got != want {
                                    return Err(Failure::new("linked-tilemap-image-relation", format!("linked tilemap cel: image pixel ({},{}) is {:?}; tile({},{}) = {} whose pixel is {:?}, opacity product {} -> expected {:?}", px, py, got, px / tw, py / th, id, src, op, want)).with(detail(at)));
                                }
                            }
                        }
                    }
                }
            }
        }
    }
    labels.push(format!("fmt-{:?}", s.fmt));
    labels.sort();
    labels.dedup();
    let mut o = Outcome::new(nontrivial && maps > 0, hash_bytes(&enc.bytes));
    o.labels = labels;
    o.counters.push(("tilemaps", maps));
    o.counters.push(("tile_lookups", lookups));
    o.sample = Some(json!({"model": super::c01::summarize(&s), "tilemap_cels": s.frames.iter().flat_map(|f| f.cels.iter()).filter_map(|c| match &c.content { CelContent::Tilemap { w, h, .. } => Some(json!({"layer": c.layer, "xy": [c.x, c.y], "stored": [w, h]})), _ => None }).collect::<Vec<_>>()}));
    Ok(o)
}

pub fn run(run: &mut Run) {
    run.rule = "cases: sprites with 1-3 tilesets (tile sizes 1x1..24x24 incl. non-square and sizes not dividing the canvas, 1..40 tiles, all pixel formats) and tilemap cels of stored size 1x1..12x12 (occasionally 1x300) at tile-aligned offsets from -(stored size) to canvas+1 tiles; standard and non-standard id bitmasks; flip bits on some words. Oracle: tilemap size = ceil(canvas/tile); tile_size/tileset/pixel_offsets/tile_offsets as stored; tile(x,y) over the logical grid + border + extreme coordinates equals the model's stored word & id mask inside the stored area and 0 outside; every canvas pixel of Tilemap::image equals the corresponding pixel of tile_image(tile(x div tw, y div th).id()) with alpha scaled by the opacity product (cells with flip bits excluded); tile_image(i) has the tile size and equals rows [i*th,(i+1)*th) of Tileset::image, which is tw x th*count and equals the decoded stored pixels. non-trivial: a map partly off canvas, or smaller than the logical grid, or a tile size not dividing the canvas; distinct by file hash".into();
    let (lanes, cases) = if run.thorough() { (16, 15000) } else { (16, 3000) };
    run_tapes(run, lanes, cases, 1200, &check);
    // thorough only: coverage-guided search over generator tapes with the same oracle
    crate::fuzzstage::fuzz_tapes(run, 1200, 120);
}

pub fn replay(case: &serde_json::Value) -> CheckResult {
    let tape = tape_from_case(case).ok_or_else(|| Failure::new("bad-replay", "no tape in replay file"))?;
    check_guarded(|| check(&tape))
}
