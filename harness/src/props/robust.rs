//! Shared campaign for C04 (load is total), C05 (loaded sprite is fully usable) and C12 (memory
//! bound): hostile-input generators, field-directed corruption sweeps, stress shapes, and the
//! mapping from worker verdicts to per-property results.
use crate::encode::*;
use crate::gen::{build_plan, build_sprite, GenCfg, Tape};
use crate::model::*;
use crate::runner::*;
use crate::scan;
use crate::worker::*;
use serde_json::{json, Value};
use std::sync::Arc;

#[derive(Clone, Copy, PartialEq, Eq, Debug)]
pub enum Focus {
    C04,
    C05,
    C12,
}

thread_local! {
    pub static LANE: std::cell::Cell<usize> = const { std::cell::Cell::new(0) };
}

pub fn small_cfg() -> GenCfg {
    let mut c = GenCfg::full();
    c.canvas_typ = 10;
    c.max_cel = 6;
    c.max_layers = 4;
    c.max_frames = 3;
    c.max_tile = 4;
    c.flip_bits = true;
    c.tile_aligned = false;
    c
}

// ---------------------------------------------------------------- hostile model tweaks

pub fn hostile_tweak(t: &mut Tape, s: &mut Sprite) -> &'static str {
    let nl = s.layers.len();
    let nf = s.frames.len();
    let pick_cel = |t: &mut Tape, s: &Sprite, pred: &dyn Fn(&Cel) -> bool| -> Option<(usize, usize)> {
        let mut v = vec![];
        for (fi, f) in s.frames.iter().enumerate() {
            for (ci, c) in f.cels.iter().enumerate() {
                if pred(c) {
                    v.push((fi, ci));
                }
            }
        }
        if v.is_empty() {
            None
        } else {
            Some(v[t.below(v.len() as u32) as usize])
        }
    };
    match t.below(22) {
        0 => {
            if let Some((f, c)) = pick_cel(t, s, &|_| true) {
                s.frames[f].cels[c].layer = t.pick(&[nl as u16, nl as u16 + 1, 65535, 32768, 255]);
                return "cel-layer-oob";
            }
            "none"
        }
        1 => {
            if let Some((f, c)) = pick_cel(t, s, &|c| matches!(c.content, CelContent::Link { .. })) {
                s.frames[f].cels[c].content = CelContent::Link { frame: t.pick(&[nf as u16, 65535, nf as u16 + 1, 32768]) };
                return "link-frame-oob";
            }
            // turn some cel into an out-of-range link
            if let Some((f, c)) = pick_cel(t, s, &|_| true) {
                s.frames[f].cels[c].content = CelContent::Link { frame: t.pick(&[nf as u16, 65535, f as u16, 0]) };
                return "link-any";
            }
            "none"
        }
        2 => {
            if let Some((f, c)) = pick_cel(t, s, &|c| matches!(c.content, CelContent::Tilemap { .. })) {
                if let CelContent::Tilemap { tiles, masks, .. } = &mut s.frames[f].cels[c].content {
                    if !tiles.is_empty() {
                        let k = t.below(tiles.len() as u32) as usize;
                        tiles[k] = t.pick(&[0x1fff_ffffu32, 0xffff_ffff, 1000, 40, 41, 7]) & (masks[0] | 0xffff);
                        return "tile-id-oob";
                    }
                }
            }
            "none"
        }
        3 => {
            if let Some((f, c)) = pick_cel(t, s, &|c| matches!(c.content, CelContent::Image { .. })) {
                if let CelContent::Image { pixels, .. } = &mut s.frames[f].cels[c].content {
                    match t.below(4) {
                        0 => pixels.truncate(pixels.len() / 2),
                        1 => {
                            pixels.pop();
                        }
                        2 => pixels.clear(),
                        _ => pixels.extend_from_slice(&[0, 0, 0, 0, 0, 0, 0, 0]),
                    }
                    return "cel-pixels-length";
                }
            }
            "none"
        }
        4 => {
            if let Some((f, c)) = pick_cel(t, s, &|c| matches!(c.content, CelContent::Tilemap { .. })) {
                if let CelContent::Tilemap { tiles, .. } = &mut s.frames[f].cels[c].content {
                    match t.below(3) {
                        0 => tiles.truncate(tiles.len() / 2),
                        1 => tiles.clear(),
                        _ => tiles.push(0),
                    }
                    return "tilemap-tiles-length";
                }
            }
            "none"
        }
        5 => {
            if !s.tilesets.is_empty() {
                let k = t.below(s.tilesets.len() as u32) as usize;
                let ts = &mut s.tilesets[k];
                match t.below(4) {
                    0 => ts.pixels.truncate(ts.pixels.len() / 2),
                    1 => {
                        ts.pixels.pop();
                    }
                    2 => ts.pixels.clear(),
                    _ => ts.pixels.extend_from_slice(&[0; 16]),
                }
                return "tileset-pixels-length";
            }
            "none"
        }
        6 => {
            if !s.tilesets.is_empty() {
                let k = t.below(s.tilesets.len() as u32) as usize;
                let ts = &mut s.tilesets[k];
                match t.below(6) {
                    0 => {
                        ts.tw = 0;
                        ts.pixels.clear();
                    }
                    1 => {
                        ts.th = 0;
                        ts.pixels.clear();
                    }
                    2 => {
                        ts.count = 0;
                        ts.pixels.clear();
                    }
                    3 => ts.count = t.pick(&[0xffff_ffffu32, 0x1_0000, 0x8000_0000, 65537]),
                    4 => {
                        ts.tw = 0;
                        ts.th = 65535;
                        ts.count = 0xffff_ffff;
                        ts.pixels.clear();
                    }
                    _ => {
                        ts.tw = 65535;
                        ts.th = 65535;
                    }
                }
                return "tileset-geometry";
            }
            "none"
        }
        7 => {
            if nl > 0 {
                let k = if t.chance(1, 2) { 0 } else { t.below(nl as u32) as usize };
                s.layers[k].level = t.pick(&[1u16, 2, 65535, 3]);
                return "layer-level";
            }
            "none"
        }
        8 => {
            if s.fmt == Fmt::Indexed {
                if let Some((f, c)) = pick_cel(t, s, &|c| matches!(c.content, CelContent::Image { .. })) {
                    if let CelContent::Image { pixels, .. } = &mut s.frames[f].cels[c].content {
                        if !pixels.is_empty() {
                            let k = t.below(pixels.len() as u32) as usize;
                            pixels[k] = t.raw() as u8;
                            return "indexed-pixel-any";
                        }
                    }
                }
            }
            "none"
        }
        9 => {
            if let Some((f, c)) = pick_cel(t, s, &|c| matches!(c.content, CelContent::Image { .. })) {
                if let CelContent::Image { w, h, pixels } = &mut s.frames[f].cels[c].content {
                    match t.below(4) {
                        0 => {
                            *w = 0;
                            pixels.clear();
                        }
                        1 => {
                            *h = 0;
                            pixels.clear();
                        }
                        2 => *w = w.wrapping_add(1),
                        _ => {
                            *w = 65535;
                            *h = 65535;
                        }
                    }
                    return "cel-dims";
                }
            }
            "none"
        }
        10 => {
            if let Some((f, c)) = pick_cel(t, s, &|_| true) {
                let dup = s.frames[f].cels[c].clone();
                s.frames[f].cels.push(dup);
                return "duplicate-cel";
            }
            "none"
        }
        11 => {
            for l in s.layers.iter_mut() {
                if let LayerKind::Tilemap { tileset } = &mut l.kind {
                    *tileset = tileset.wrapping_add(0x1234_5678);
                    return "tilemap-missing-tileset";
                }
            }
            "none"
        }
        12 => {
            // swap layer kinds so cels sit in the wrong kind of layer
            if nl > 0 {
                let k = t.below(nl as u32) as usize;
                let ts = s.tilesets.first().map(|t| t.id).unwrap_or(0);
                s.layers[k].kind = match s.layers[k].kind {
                    LayerKind::Image => {
                        if t.chance(1, 2) {
                            LayerKind::Tilemap { tileset: ts }
                        } else {
                            LayerKind::Group
                        }
                    }
                    LayerKind::Group => LayerKind::Image,
                    LayerKind::Tilemap { .. } => LayerKind::Image,
                };
                return "layer-kind-swap";
            }
            "none"
        }
        13 => {
            if let Some(p) = &mut s.palette {
                match t.below(3) {
                    0 => p.entries.clear(),
                    1 => p.first = u32::MAX - (p.entries.len() as u32 / 2),
                    _ => {
                        p.entries.truncate(1);
                    }
                }
                return "palette-range";
            }
            "none"
        }
        14 => {
            if let Some(l) = &mut s.legacy {
                l.kind = 0x0011;
                if let Some(p) = l.packets.first_mut() {
                    if let Some(c) = p.colors.first_mut() {
                        c[0] = t.pick(&[64u8, 255, 128]);
                    }
                }
                return "legacy-6bit-range";
            }
            "none"
        }
        15 => {
            if let Some((f, c)) = pick_cel(t, s, &|c| matches!(c.content, CelContent::Tilemap { .. })) {
                if let CelContent::Tilemap { w, h, bits, .. } = &mut s.frames[f].cels[c].content {
                    match t.below(4) {
                        0 => *w = 0,
                        1 => *h = w.wrapping_add(*h),
                        2 => *bits = t.pick(&[0u16, 8, 16, 64]),
                        _ => {
                            *w = 65535;
                            *h = 65535;
                        }
                    }
                    return "tilemap-dims";
                }
            }
            "none"
        }
        16 => {
            if let Some(tags) = &mut s.tags {
                if let Some(tg) = tags.first_mut() {
                    tg.dir = t.pick(&[3u8, 255, 128]);
                    return "tag-dir";
                }
            }
            "none"
        }
        17 => {
            // link to a link / link to empty
            if nf >= 2 {
                if let Some((f, c)) = pick_cel(t, s, &|c| matches!(c.content, CelContent::Image { .. })) {
                    let layer = s.frames[f].cels[c].layer;
                    let other = (f + 1) % nf;
                    s.frames[other].cels.retain(|c| c.layer != layer);
                    s.frames[other].cels.push(Cel { layer, x: 0, y: 0, opacity: 255, content: CelContent::Link { frame: other as u16 }, user_data: None });
                    return "self-link";
                }
            }
            "none"
        }
        18 => {
            s.width = t.pick(&[0u16, 65535, 1]);
            s.height = t.pick(&[0u16, 65535, 1]);
            "canvas-extreme"
        }
        19 => {
            // many more user data records than tags / dangling user data
            s.tag_user_data.push(UserData { text: Some("x".into()), color: None });
            if s.tags.is_none() {
                s.tags = Some(vec![]);
            }
            "tag-userdata-excess"
        }
        20 => {
            // indexed without palette
            if s.fmt == Fmt::Indexed {
                s.palette = None;
                s.legacy = None;
                return "indexed-no-palette";
            }
            "none"
        }
        _ => {
            for ts in s.tilesets.iter_mut() {
                ts.flags = t.pick(&[0u32, 1, 3, 4, 0xffff_ffff]);
                return "tileset-flags";
            }
            "none"
        }
    }
}

// ---------------------------------------------------------------- byte-level mutations

pub fn boundary_values(len: usize, orig: u64) -> Vec<u64> {
    let max: u64 = match len {
        1 => 0xFF,
        2 => 0xFFFF,
        _ => 0xFFFF_FFFF,
    };
    let mut v = vec![0, 1, 2, max / 2 - 1, max / 2, max / 2 + 1, max - 1, max, orig.wrapping_add(1) & max, orig.wrapping_sub(1) & max, orig.wrapping_mul(2) & max];
    if len >= 2 {
        v.extend_from_slice(&[255, 256, 0x7FFF, 0x8000, 19, 32, 64]);
    }
    if len >= 4 {
        v.extend_from_slice(&[0xFFFF, 0x1_0000, 0x1_0001, 0x0100_0000, 0x7FFF_FFFF, 0x8000_0000]);
    }
    v.sort();
    v.dedup();
    v.retain(|x| *x != orig);
    v
}

#[derive(Clone)]
pub struct Pieces {
    pub header: Vec<u8>,
    pub frames: Vec<(Vec<u8>, Vec<Vec<u8>>)>,
    pub trailing: Vec<u8>,
}

pub fn to_pieces(e: &Encoded) -> Pieces {
    let mut frames = vec![];
    for (fi, fs) in e.frame_starts.iter().enumerate() {
        let hdr = e.bytes[*fs..*fs + 16].to_vec();
        let chunks = e.chunks.iter().filter(|c| c.frame == fi as u32).map(|c| e.bytes[c.start..c.end].to_vec()).collect();
        frames.push((hdr, chunks));
    }
    Pieces { header: e.bytes[..128].to_vec(), frames, trailing: e.bytes[e.last_frame_end()..].to_vec() }
}

/// Pieces of an arbitrary (scanned, complete) file.
pub fn to_pieces_raw(b: &[u8], sc: &scan::Scan) -> Option<Pieces> {
    let mut frames = vec![];
    for (fi, (fs, _)) in sc.frames.iter().enumerate() {
        let hdr = b.get(*fs..*fs + 16)?.to_vec();
        let chunks = sc.chunks.iter().filter(|c| c.frame == fi as u32).map(|c| b[c.start..c.end].to_vec()).collect();
        frames.push((hdr, chunks));
    }
    Some(Pieces { header: b.get(..128)?.to_vec(), frames, trailing: b[sc.last_frame_end..].to_vec() })
}

pub fn assemble(p: &Pieces, fixup: bool) -> Vec<u8> {
    let mut out = p.header.clone();
    if fixup {
        out[6..8].copy_from_slice(&(p.frames.len() as u16).to_le_bytes());
    }
    for (hdr, chunks) in &p.frames {
        let mut h = hdr.clone();
        if fixup {
            let body: usize = chunks.iter().map(|c| c.len()).sum();
            h[0..4].copy_from_slice(&((16 + body) as u32).to_le_bytes());
            let n = chunks.len();
            h[6..8].copy_from_slice(&(n.min(0xFFFF) as u16).to_le_bytes());
            h[12..16].copy_from_slice(&(n as u32).to_le_bytes());
        }
        out.extend_from_slice(&h);
        for c in chunks {
            out.extend_from_slice(c);
        }
    }
    out.extend_from_slice(&p.trailing);
    out
}

pub fn structural_mutation(t: &mut Tape, e: &Encoded) -> (Vec<u8>, &'static str) {
    let mut p = to_pieces(e);
    let fixup = t.chance(1, 2);
    let nf = p.frames.len();
    let what = match t.below(10) {
        0 => {
            let f = t.below(nf as u32) as usize;
            if !p.frames[f].1.is_empty() {
                let k = t.below(p.frames[f].1.len() as u32) as usize;
                p.frames[f].1.remove(k);
            }
            "chunk-delete"
        }
        1 => {
            let f = t.below(nf as u32) as usize;
            if !p.frames[f].1.is_empty() {
                let k = t.below(p.frames[f].1.len() as u32) as usize;
                let c = p.frames[f].1[k].clone();
                let at = t.below(p.frames[f].1.len() as u32 + 1) as usize;
                p.frames[f].1.insert(at, c);
            }
            "chunk-duplicate"
        }
        2 => {
            let f = t.below(nf as u32) as usize;
            let n = p.frames[f].1.len();
            if n >= 2 {
                let a = t.below(n as u32) as usize;
                let b = t.below(n as u32) as usize;
                p.frames[f].1.swap(a, b);
            }
            "chunk-swap"
        }
        3 => {
            let f = t.below(nf as u32) as usize;
            if !p.frames[f].1.is_empty() {
                let k = t.below(p.frames[f].1.len() as u32) as usize;
                let ty = t.pick(&[0x0004u16, 0x0011, 0x2004, 0x2005, 0x2006, 0x2007, 0x2008, 0x2016, 0x2017, 0x2018, 0x2019, 0x2020, 0x2022, 0x2023]);
                p.frames[f].1[k][4..6].copy_from_slice(&ty.to_le_bytes());
            }
            "chunk-retag"
        }
        4 => {
            let f = t.below(nf as u32) as usize;
            let fr = p.frames[f].clone();
            let at = t.below(nf as u32 + 1) as usize;
            p.frames.insert(at, fr);
            "frame-duplicate"
        }
        5 => {
            if nf > 1 {
                let f = t.below(nf as u32) as usize;
                p.frames.remove(f);
            }
            "frame-delete"
        }
        6 => {
            // move a chunk to another frame
            let f = t.below(nf as u32) as usize;
            let g = t.below(nf as u32) as usize;
            if !p.frames[f].1.is_empty() {
                let k = t.below(p.frames[f].1.len() as u32) as usize;
                let c = p.frames[f].1.remove(k);
                p.frames[g].1.push(c);
            }
            "chunk-move"
        }
        8 | 9 => {
            // a Tags chunk (M tags) followed by K user-data records, injected into any frame: exercises
            // tag bookkeeping when tags chunks repeat or appear outside the first frame
            let f = t.below(nf as u32) as usize;
            let m = t.below(7) as usize;
            let k = t.below(9) as usize;
            let tags: Vec<Tag> = (0..m).map(|i| Tag { from: 0, to: 0, dir: 0, repeat: 0, name: format!("j{}", i) }).collect();
            let mut at = t.below(p.frames[f].1.len() as u32 + 1) as usize;
            p.frames[f].1.insert(at, finish_chunk(tags_chunk(&tags, &mut None), 0, &mut Rng(2)).bytes);
            for i in 0..k {
                at += 1;
                let mut w = W::new(0x2020);
                w.u32(Kind::Flags, "ud_flags", 1);
                w.string("ud_text", &format!("tj{}", i));
                p.frames[f].1.insert(at, finish_chunk(w, 0, &mut Rng(3)).bytes);
            }
            "tags-inject"
        }
        _ => {
            // user data chunk injected at a random position (dangling / re-attaching)
            let f = t.below(nf as u32) as usize;
            let mut w = W::new(0x2020);
            w.u32(Kind::Flags, "ud_flags", 1);
            w.string("ud_text", "inj");
            let c = finish_chunk(w, 0, &mut Rng(1));
            let at = t.below(p.frames[f].1.len() as u32 + 1) as usize;
            p.frames[f].1.insert(at, c.bytes);
            "userdata-inject"
        }
    };
    (assemble(&p, fixup), what)
}

#[derive(Clone, Debug)]
pub struct Built {
    pub bytes: Vec<u8>,
    pub ops: Vec<String>,
    pub wellformed: bool,
}

/// Hostile input from a tape: well-formed model -> model tweaks -> encode -> field patches /
/// structural edits / truncation / bit flips.
pub fn build_hostile(tape: &[u32]) -> Built {
    let mut t = Tape::new(tape);
    let mut s = build_sprite(&mut t, &small_cfg());
    let plan = build_plan(&mut t);
    let mut ops = vec![];
    let ntw = t.pick(&[0u32, 1, 1, 2]);
    for _ in 0..ntw {
        let w = hostile_tweak(&mut t, &mut s);
        if w != "none" {
            ops.push(format!("model:{}", w));
        }
    }
    let mut enc = encode(&s, &plan);
    let mut bytes;
    if t.chance(1, 3) {
        let (b, w) = structural_mutation(&mut t, &enc);
        ops.push(format!("struct:{}", w));
        bytes = b;
        // refresh the field map by re-scanning generic fields
        let sc = scan::scan(&bytes);
        enc.fields = scan::generic_fields(&bytes, &sc);
    } else {
        bytes = enc.bytes.clone();
    }
    let npatch = t.pick(&[0u32, 1, 1, 1, 2, 3, 4]);
    for _ in 0..npatch {
        let cands: Vec<&Field> = enc.fields.iter().filter(|f| f.kind != Kind::Payload && f.len <= 4 && f.off + f.len <= bytes.len()).collect();
        if cands.is_empty() {
            break;
        }
        let f = cands[t.below(cands.len() as u32) as usize].clone();
        let orig = read_field(&bytes, &f);
        let vals = boundary_values(f.len, orig);
        let v = if t.chance(1, 5) { t.raw() as u64 } else { vals[t.below(vals.len() as u32) as usize] };
        patch(&mut bytes, &f, v);
        ops.push(format!("patch:{}@{}={:#x}", f.name, f.off, v));
    }
    match t.below(12) {
        0 => {
            let cut = t.below(bytes.len() as u32 + 1) as usize;
            bytes.truncate(cut);
            ops.push(format!("truncate@{}", cut));
        }
        1 => {
            let n = 1 + t.below(4);
            for _ in 0..n {
                if !bytes.is_empty() {
                    let k = t.below(bytes.len() as u32) as usize;
                    bytes[k] ^= 1 << t.below(8);
                    ops.push(format!("bitflip@{}", k));
                }
            }
        }
        2 => {
            // random bytes behind a valid header
            let keep = t.pick(&[128usize, 144, 150]).min(bytes.len());
            let n = t.below(200) as usize;
            let mut r = Rng(t.raw64());
            bytes.truncate(keep);
            for _ in 0..n {
                bytes.push(r.next() as u8);
            }
            ops.push("random-tail".into());
        }
        _ => {}
    }
    let wellformed = ops.is_empty();
    Built { bytes, ops, wellformed }
}

// ---------------------------------------------------------------- stress shapes (S6)

fn frame_bytes(chunks: &[Vec<u8>], duration: u16) -> Vec<u8> {
    let body: usize = chunks.iter().map(|c| c.len()).sum();
    let n = chunks.len();
    let mut o = Vec::with_capacity(16 + body);
    o.extend_from_slice(&((16 + body) as u32).to_le_bytes());
    o.extend_from_slice(&0xF1FAu16.to_le_bytes());
    o.extend_from_slice(&(n.min(0xFFFF) as u16).to_le_bytes());
    o.extend_from_slice(&duration.to_le_bytes());
    o.extend_from_slice(&[0, 0]);
    o.extend_from_slice(&(n as u32).to_le_bytes());
    for c in chunks {
        o.extend_from_slice(c);
    }
    o
}

fn header_bytes(frames: u16, w: u16, h: u16, depth: u16) -> Vec<u8> {
    let mut o = vec![0u8; 128];
    o[4..6].copy_from_slice(&0xA5E0u16.to_le_bytes());
    o[6..8].copy_from_slice(&frames.to_le_bytes());
    o[8..10].copy_from_slice(&w.to_le_bytes());
    o[10..12].copy_from_slice(&h.to_le_bytes());
    o[12..14].copy_from_slice(&depth.to_le_bytes());
    o[14..18].copy_from_slice(&1u32.to_le_bytes());
    o[34] = 1;
    o[35] = 1;
    o
}

fn chunk(w: W) -> Vec<u8> {
    finish_chunk(w, 0, &mut Rng(0)).bytes
}

fn simple_layer(level: u16, kind: LayerKind, flags: u16) -> Vec<u8> {
    chunk(layer_chunk(&Layer { flags, kind, level, blend: 0, opacity: 255, name: String::new(), user_data: None }, &mut None))
}

fn image_cel(layer: u16, w: u16, h: u16, pixels: Vec<u8>, z: Option<u32>) -> Vec<u8> {
    chunk(cel_chunk(&Cel { layer, x: 0, y: 0, opacity: 255, content: CelContent::Image { w, h, pixels }, user_data: None }, z, &mut None))
}

pub fn stress_shapes(thorough: bool) -> Vec<(String, Vec<u8>)> {
    let mut v: Vec<(String, Vec<u8>)> = vec![];
    let big = 65535usize;
    let _ = thorough;
    // nested groups
    for depth in [1000usize, big] {
        let mut chunks = vec![];
        for i in 0..depth {
            chunks.push(simple_layer(i as u16, LayerKind::Group, 1));
        }
        chunks.push(simple_layer(depth.min(65535) as u16, LayerKind::Image, 1));
        chunks.push(image_cel(depth as u16, 1, 1, vec![255, 0, 0, 255], None));
        let mut b = header_bytes(1, 2, 2, 32);
        b.extend(frame_bytes(&chunks, 100));
        v.push((format!("nested-groups-{}", depth), b));
    }
    // a deep chain followed by layers at small non-zero levels (the parent search has to climb back up)
    for depth in [30000usize, 65534] {
        let mut chunks = vec![];
        for i in 0..depth {
            chunks.push(simple_layer(i as u16, LayerKind::Group, 1));
        }
        chunks.push(simple_layer(1, LayerKind::Image, 1));
        chunks.push(simple_layer(2, LayerKind::Image, 1));
        chunks.push(simple_layer(1, LayerKind::Group, 0));
        chunks.push(simple_layer(2, LayerKind::Image, 1));
        chunks.push(image_cel((depth + 3) as u16, 1, 1, vec![255, 0, 0, 255], None));
        let mut b = header_bytes(1, 2, 2, 32);
        b.extend(frame_bytes(&chunks, 100));
        v.push((format!("nested-groups-{}-then-shallow", depth), b));
    }
    // flat siblings at level 1 under one group (quadratic parent search)
    {
        let n = if thorough { 65535 } else { 8000 };
        let mut chunks = vec![simple_layer(0, LayerKind::Group, 1)];
        for _ in 1..n {
            chunks.push(simple_layer(1, LayerKind::Image, 1));
        }
        let mut b = header_bytes(1, 2, 2, 32);
        b.extend(frame_bytes(&chunks, 100));
        v.push((format!("flat-children-{}", n), b));
    }
    // many minimal chunks in one frame
    {
        let n = if thorough { 100_000 } else { 30_000 };
        let chunks: Vec<Vec<u8>> = (0..n).map(|_| chunk(W::new(0x2017))).collect();
        let mut b = header_bytes(1, 2, 2, 32);
        b.extend(frame_bytes(&chunks, 100));
        v.push((format!("many-chunks-{}", n), b));
    }
    // 65535 empty frames
    {
        let mut b = header_bytes(65535, 2, 2, 32);
        let f = frame_bytes(&[], 7);
        for _ in 0..65535 {
            b.extend_from_slice(&f);
        }
        v.push(("empty-frames-65535".into(), b));
    }
    // header declares 65535 frames, none present
    v.push(("declared-frames-only".into(), header_bytes(65535, 1, 1, 32)));
    // chunk count 0xFFFFFFFF
    {
        let mut b = header_bytes(1, 2, 2, 32);
        let mut f = frame_bytes(&[chunk(W::new(0x2017))], 1);
        f[12..16].copy_from_slice(&0xFFFF_FFFFu32.to_le_bytes());
        b.extend(f);
        v.push(("chunk-count-max".into(), b));
    }
    // frame and chunk size near 2^32
    for (name, fsz, csz) in [("chunk-size-4g", 0xFFFF_FFFFu32, 0xFFFF_FFF0u32), ("chunk-size-2g", 0x8000_0010, 0x8000_0000), ("chunk-size-1g", 0x4000_0020, 0x4000_0000)] {
        let mut b = header_bytes(1, 2, 2, 32);
        let mut f = frame_bytes(&[simple_layer(0, LayerKind::Image, 1)], 1);
        f[0..4].copy_from_slice(&fsz.to_le_bytes());
        f[16..20].copy_from_slice(&csz.to_le_bytes());
        b.extend(f);
        v.push((name.into(), b));
    }
    // first layer with child level > 0
    for lvl in [1u16, 65535] {
        let mut b = header_bytes(1, 2, 2, 32);
        b.extend(frame_bytes(&[simple_layer(lvl, LayerKind::Image, 1)], 1));
        v.push((format!("first-layer-level-{}", lvl), b));
    }
    // cels addressing layer 65535, links to frame 65535
    for (name, cel) in [
        ("cel-layer-65535", Cel { layer: 65535, x: 0, y: 0, opacity: 255, content: CelContent::Image { w: 1, h: 1, pixels: vec![1, 2, 3, 4] }, user_data: None }),
        ("link-frame-65535", Cel { layer: 0, x: 0, y: 0, opacity: 255, content: CelContent::Link { frame: 65535 }, user_data: None }),
        ("link-layer-65535", Cel { layer: 65535, x: 0, y: 0, opacity: 255, content: CelContent::Link { frame: 0 }, user_data: None }),
    ] {
        let mut b = header_bytes(1, 2, 2, 32);
        b.extend(frame_bytes(&[simple_layer(0, LayerKind::Image, 1), chunk(cel_chunk(&cel, None, &mut None))], 1));
        v.push((name.into(), b));
    }
    // long runs: more than 65536 user data chunks after each kind of entity (counters that follow the records),
    // and more than 65536 chunks of each small kind in one frame
    {
        let ud = chunk(user_data_chunk(&UserData { text: Some("u".into()), color: None }));
        let one_tag = [Tag { from: 0, to: 0, dir: 0, repeat: 0, name: "t".into() }];
        let starters: Vec<(&str, Vec<Vec<u8>>)> = vec![
            ("layer", vec![simple_layer(0, LayerKind::Image, 1)]),
            ("cel", vec![simple_layer(0, LayerKind::Image, 1), image_cel(0, 1, 1, vec![1, 2, 3, 4], None)]),
            ("slice", vec![chunk(slice_chunk(&Slice { name: "s".into(), flags: 0, keys: vec![], user_data: None }, &mut None))]),
            ("tags", vec![chunk(tags_chunk(&one_tag, &mut None))]),
            ("legacy-palette", vec![chunk(legacy_chunk(&LegacyPalette { kind: 4, packets: vec![LegacyPacket { skip: 0, colors: vec![[1, 2, 3]] }] }))]),
        ];
        for (name, start) in starters {
            let mut chunks = start;
            for _ in 0..65540 {
                chunks.push(ud.clone());
            }
            let mut b = header_bytes(1, 2, 2, 32);
            b.extend(frame_bytes(&chunks, 1));
            v.push((format!("user-data-x65540-after-{}", name), b));
        }
        let repeated: Vec<(&str, Vec<u8>)> = vec![
            ("slice", chunk(slice_chunk(&Slice { name: "s".into(), flags: 0, keys: vec![], user_data: None }, &mut None))),
            ("tags", chunk(tags_chunk(&one_tag, &mut None))),
            ("palette", chunk(palette_chunk(&NewPalette { first: 0, entries: vec![PalEntry { rgba: [9, 9, 9, 255], name: None }] }, &mut None))),
            ("legacy-palette", chunk(legacy_chunk(&LegacyPalette { kind: 4, packets: vec![LegacyPacket { skip: 0, colors: vec![[1, 2, 3]] }] }))),
        ];
        for (name, c) in repeated {
            let chunks: Vec<Vec<u8>> = (0..65540).map(|_| c.clone()).collect();
            let mut b = header_bytes(1, 2, 2, 32);
            b.extend(frame_bytes(&chunks, 1));
            v.push((format!("{}-chunks-x65540", name), b));
        }
    }
    // table amplification: cels at a high layer index in many frames, layers declared or not
    for (declare, nl, nf, cel_layer_zero) in [(false, 65535usize, 64usize, false), (true, 2000, 400, false), (true, if thorough { 9000 } else { 6500 }, if thorough { 9000 } else { 6500 }, false), (true, 8000, 8000, true)] {
        let mut b = header_bytes(nf as u16, 1, 1, 32);
        for f in 0..nf {
            let mut chunks = vec![];
            if f == 0 && declare {
                for _ in 0..nl {
                    chunks.push(simple_layer(0, LayerKind::Image, 1));
                }
            }
            if f == 0 {
                chunks.push(image_cel(if cel_layer_zero { 0 } else { (nl - 1) as u16 }, 1, 1, vec![1, 2, 3, 4], None));
            } else {
                chunks.push(chunk(cel_chunk(&Cel { layer: if cel_layer_zero { 0 } else { (nl - 1) as u16 }, x: 0, y: 0, opacity: 255, content: CelContent::Link { frame: 0 }, user_data: None }, None, &mut None)));
            }
            b.extend(frame_bytes(&chunks, 1));
        }
        v.push((format!("cel-table-{}x{}-{}{}", nl, nf, if declare { "declared" } else { "undeclared" }, if cel_layer_zero { "-cels-on-layer-0" } else { "" }), b));
    }
    // declared sizes far beyond the payload
    {
        let mut b = header_bytes(1, 4, 4, 32);
        b.extend(frame_bytes(&[simple_layer(0, LayerKind::Image, 1), image_cel(0, 65535, 65535, vec![0; 64], None)], 1));
        v.push(("cel-raw-declared-4g".into(), b));
        let mut b = header_bytes(1, 4, 4, 32);
        b.extend(frame_bytes(&[simple_layer(0, LayerKind::Image, 1), image_cel(0, 65535, 65535, vec![0; 64], Some(6))], 1));
        v.push(("cel-zlib-declared-4g".into(), b));
        let mut b = header_bytes(1, 4, 4, 32);
        let mut w = W::new(0x2008);
        w.u32(Kind::Count, "ext_count", 0xFFFF_FFFF);
        w.reserved(8, &mut None);
        b.extend(frame_bytes(&[chunk(w)], 1));
        v.push(("ext-files-count-max".into(), b));
        let mut b = header_bytes(1, 4, 4, 32);
        let mut w = W::new(0x2019);
        w.u32(Kind::Reserved, "pal_total", 0);
        w.u32(Kind::Index, "pal_first", 0);
        w.u32(Kind::Index, "pal_last", 0xFFFF_FFFF);
        w.reserved(8, &mut None);
        b.extend(frame_bytes(&[chunk(w)], 1));
        v.push(("palette-range-max".into(), b));
        for (cnt, tw, th) in [(0xFFFF_FFFFu32, 65535u16, 65535u16), (0x1_0001, 256, 256), (65536, 65535, 1), (0xFFFF_FFFF, 1, 1), (1 << 16, 1 << 8, 1 << 8)] {
            let ts = Tileset { id: 0, flags: 2, count: cnt, tw, th, base_index: 1, name: String::new(), ext: (0, 0), pixels: vec![0; 64] };
            let mut b = header_bytes(1, 4, 4, 32);
            b.extend(frame_bytes(&[chunk(tileset_chunk(&ts, 6, &mut None))], 1));
            v.push((format!("tileset-declared-{}x{}x{}", cnt, tw, th), b));
        }
        let mut w = W::new(0x2018);
        w.u16(Kind::Count, "tags_count", 65535);
        w.reserved(8, &mut None);
        let mut b = header_bytes(1, 4, 4, 32);
        b.extend(frame_bytes(&[chunk(w)], 1));
        v.push(("tags-count-max".into(), b));
        let mut w = W::new(0x2022);
        w.u32(Kind::Count, "slice_nkeys", 0xFFFF_FFFF);
        w.u32(Kind::Flags, "slice_flags", 3);
        w.u32(Kind::Reserved, "r", 0);
        w.string("slice_name", "s");
        let mut b = header_bytes(1, 4, 4, 32);
        b.extend(frame_bytes(&[chunk(w)], 1));
        v.push(("slice-keys-max".into(), b));
    }
    // deflate bombs with consistent and inconsistent declarations
    for (side, declared) in [(2048u16, 2048u16), (if thorough { 8000 } else { 4000 }, 2), (4000, 4000)] {
        let px = vec![0u8; side as usize * side as usize * 4];
        let mut b = header_bytes(1, 4, 4, 32);
        b.extend(frame_bytes(&[simple_layer(0, LayerKind::Image, 1), image_cel(0, declared, declared, px, Some(9))], 1));
        v.push((format!("bomb-cel-{}-declared-{}", side, declared), b));
    }
    {
        let px = vec![0u8; 4000 * 4000];
        let ts = Tileset { id: 0, flags: 2, count: 1, tw: 2, th: 2, base_index: 1, name: String::new(), ext: (0, 0), pixels: px };
        let mut b = header_bytes(1, 4, 4, 16);
        b.extend(frame_bytes(&[chunk(tileset_chunk(&ts, 9, &mut None))], 1));
        v.push(("bomb-tileset-declared-small".into(), b));
        let tiles = vec![0u32; 3000 * 3000];
        let ts = Tileset { id: 0, flags: 2, count: 1, tw: 1, th: 1, base_index: 1, name: String::new(), ext: (0, 0), pixels: vec![0; 4] };
        let cel = Cel { layer: 0, x: 0, y: 0, opacity: 255, content: CelContent::Tilemap { w: 2, h: 2, bits: 32, masks: [0x1fffffff, 0x20000000, 0x40000000, 0x80000000], tiles }, user_data: None };
        let mut b = header_bytes(1, 4, 4, 32);
        b.extend(frame_bytes(&[chunk(tileset_chunk(&ts, 9, &mut None)), simple_layer(0, LayerKind::Tilemap { tileset: 0 }, 1), chunk(cel_chunk(&cel, Some(9), &mut None))], 1));
        v.push(("bomb-tilemap-declared-small".into(), b));
    }
    // deflate bombs that are refused for an unrelated reason (error paths must not expand them further):
    // undefined layer, duplicate cel
    for (name, depth, layer) in [("rgba", 32u16, 5u16), ("gray", 16, 5), ("gray", 16, 0)] {
        let side = 3072u16;
        let bpp = (depth / 8) as usize;
        let px = vec![0u8; side as usize * side as usize * bpp];
        let cel = image_cel(layer, side, side, px, Some(9));
        let mut b = header_bytes(1, 4, 4, depth);
        let chunks = if layer == 0 { vec![simple_layer(0, LayerKind::Image, 1), cel.clone(), cel] } else { vec![simple_layer(0, LayerKind::Image, 1), cel] };
        b.extend(frame_bytes(&chunks, 1));
        v.push((format!("bomb-cel-{}-refused-{}", name, if layer == 0 { "duplicate" } else { "undefined-layer" }), b));
    }
    // many small records that each declare extreme values (per-item amplification): tags spanning every frame number,
    // in each direction, in a one-frame sprite
    for dir in [0u8, 1, 2] {
        let tags: Vec<Tag> = (0..3000).map(|i| Tag { from: 0, to: 65535, dir, repeat: 65535, name: format!("t{}", i) }).collect();
        let mut b = header_bytes(1, 2, 2, 32);
        b.extend(frame_bytes(&[chunk(tags_chunk(&tags, &mut None))], 65535));
        v.push((format!("tags-x3000-full-range-dir{}", dir), b));
    }
    // indexed-colour deflate bombs: every pixel an index the palette lacks (refused; the refusal must not cost a
    // multiple of the decoded size), and the same with a valid index
    for (name, index) in [("invalid", 7u8), ("valid", 1u8)] {
        let (wd, ht) = (8192u16, 4096u16);
        let px = vec![index; wd as usize * ht as usize];
        let mut b = header_bytes(1, 4, 4, 8);
        let pal = chunk(palette_chunk(&NewPalette { first: 0, entries: vec![PalEntry { rgba: [0, 0, 0, 255], name: None }, PalEntry { rgba: [255, 255, 255, 255], name: None }] }, &mut None));
        b.extend(frame_bytes(&[pal, simple_layer(0, LayerKind::Image, 1), image_cel(0, wd, ht, px, Some(9))], 1));
        v.push((format!("bomb-cel-indexed-{}-index", name), b));
    }
    // user data with the newer "has properties" bit and a property whose value nests 300000 deep: vectors of
    // vectors (element type given per vector), vectors of mixed elements, and maps of maps (ignored today)
    for (name, kind) in [("vectors", 0u8), ("mixed-vectors", 1), ("maps", 2)] {
        let depth = 300_000usize;
        let mut body: Vec<u8> = vec![];
        body.extend_from_slice(&1u32.to_le_bytes()); // number of property maps
        body.extend_from_slice(&0u32.to_le_bytes()); // map key
        body.extend_from_slice(&1u32.to_le_bytes()); // number of properties
        body.extend_from_slice(&1u16.to_le_bytes());
        body.push(b'v');
        match kind {
            0 => {
                body.extend_from_slice(&0x0011u16.to_le_bytes());
                for _ in 0..depth {
                    body.extend_from_slice(&1u32.to_le_bytes());
                    body.extend_from_slice(&0x0011u16.to_le_bytes());
                }
                body.extend_from_slice(&0u32.to_le_bytes());
                body.extend_from_slice(&0x0001u16.to_le_bytes());
            }
            1 => {
                body.extend_from_slice(&0x0011u16.to_le_bytes());
                for _ in 0..depth {
                    body.extend_from_slice(&1u32.to_le_bytes());
                    body.extend_from_slice(&0u16.to_le_bytes());
                    body.extend_from_slice(&0x0011u16.to_le_bytes());
                }
                body.extend_from_slice(&0u32.to_le_bytes());
                body.extend_from_slice(&0x0001u16.to_le_bytes());
            }
            _ => {
                body.extend_from_slice(&0x0012u16.to_le_bytes());
                for _ in 0..depth {
                    body.extend_from_slice(&1u32.to_le_bytes());
                    body.extend_from_slice(&1u16.to_le_bytes());
                    body.push(b'm');
                    body.extend_from_slice(&0x0012u16.to_le_bytes());
                }
                body.extend_from_slice(&0u32.to_le_bytes());
            }
        }
        let mut w = W::new(0x2020);
        w.u32(Kind::Flags, "ud_flags", 4);
        w.u32(Kind::Size, "ud_props_size", body.len() as u32 + 4);
        w.bytes(Kind::Payload, "ud_props", &body);
        let mut b = header_bytes(1, 2, 2, 32);
        b.extend(frame_bytes(&[simple_layer(0, LayerKind::Image, 1), chunk(w)], 1));
        v.push((format!("user-data-properties-nested-{}-x300000", name), b));
    }
    // two cel chunks for the same frame and layer that are not adjacent in the file (image + image, image + link,
    // link + image), with another layer's cel in between
    for (name, first_link, second_link) in [("image-image", false, false), ("image-link", false, true), ("link-image", true, false)] {
        let img = |l: u16, c: u8| chunk(cel_chunk(&Cel { layer: l, x: 0, y: 0, opacity: 255, content: CelContent::Image { w: 2, h: 2, pixels: vec![c; 16] }, user_data: None }, None, &mut None));
        let link = |l: u16| chunk(cel_chunk(&Cel { layer: l, x: 0, y: 0, opacity: 255, content: CelContent::Link { frame: 0 }, user_data: None }, None, &mut None));
        let mut b = header_bytes(3, 2, 2, 32);
        b.extend(frame_bytes(&[simple_layer(0, LayerKind::Image, 1), simple_layer(0, LayerKind::Image, 1), img(0, 200), img(1, 100)], 1));
        let a = if first_link { link(0) } else { img(0, 50) };
        let c = if second_link { link(0) } else { img(0, 60) };
        b.extend(frame_bytes(&[a, img(1, 70), c], 1));
        // a third frame links to the doubly defined cel of the second
        b.extend(frame_bytes(&[chunk(cel_chunk(&Cel { layer: 0, x: 0, y: 0, opacity: 255, content: CelContent::Link { frame: 1 }, user_data: None }, None, &mut None))], 1));
        v.push((format!("duplicate-cel-not-adjacent-{}", name), b));
    }
    // a tileset id defined again after a tilemap cel has used it, with fewer tiles than that cel references (and
    // with another tile size)
    for (name, count2, tw2) in [("fewer-tiles", 1u32, 2u16), ("other-tile-size", 4, 1)] {
        let ts1 = Tileset { id: 0, flags: 2, count: 4, tw: 2, th: 2, base_index: 1, name: String::new(), ext: (0, 0), pixels: (0..4 * 2 * 2 * 4).map(|i| (i * 7) as u8 | 1).collect() };
        let ts2 = Tileset { id: 0, flags: 2, count: count2, tw: tw2, th: tw2, base_index: 1, name: String::new(), ext: (0, 0), pixels: vec![9u8; count2 as usize * tw2 as usize * tw2 as usize * 4] };
        let cel = Cel { layer: 0, x: 0, y: 0, opacity: 255, content: CelContent::Tilemap { w: 2, h: 2, bits: 32, masks: [0x1fffffff, 0x20000000, 0x40000000, 0x80000000], tiles: vec![0, 1, 2, 3] }, user_data: None };
        let mut b = header_bytes(1, 4, 4, 32);
        b.extend(frame_bytes(&[chunk(tileset_chunk(&ts1, 6, &mut None)), simple_layer(0, LayerKind::Tilemap { tileset: 0 }, 1), chunk(cel_chunk(&cel, Some(6), &mut None)), chunk(tileset_chunk(&ts2, 6, &mut None))], 1));
        v.push((format!("tileset-redefined-after-its-tilemap-cel-{}", name), b));
    }
    // a tileset id defined twice with every combination of "tiles embedded" / "external link only" / both, and a
    // second tile count that is equal, smaller or larger: refused today (external tilesets are unsupported); where a
    // reader accepts one, everything it exposes has to be usable
    for (n1, f1) in [("embedded", 2u32), ("external", 1), ("both", 3)] {
        for (n2, f2) in [("embedded", 2u32), ("external", 1), ("both", 3)] {
            for count2 in [4u32, 1, 9] {
                if f1 == 2 && f2 == 2 && count2 == 4 {
                    continue;
                }
                let px = |f: u32, c: u32, v: u8| if f & 2 != 0 { vec![v; c as usize * 2 * 2 * 4] } else { vec![] };
                let ts1 = Tileset { id: 0, flags: f1, count: 4, tw: 2, th: 2, base_index: 1, name: String::new(), ext: (1, 0), pixels: px(f1, 4, 31) };
                let ts2 = Tileset { id: 0, flags: f2, count: count2, tw: 2, th: 2, base_index: 1, name: String::new(), ext: (1, 0), pixels: px(f2, count2, 77) };
                let cel = Cel { layer: 0, x: 0, y: 0, opacity: 255, content: CelContent::Tilemap { w: 2, h: 2, bits: 32, masks: [0x1fffffff, 0x20000000, 0x40000000, 0x80000000], tiles: vec![0, 1, 2, 3] }, user_data: None };
                let ext_bytes = chunk(ext_files_chunk(&[ExtFile { id: 1, name: "tiles.aseprite".to_string() }], &mut None));
                for with_ext in [false, true] {
                    let mut chunks = vec![];
                    if with_ext {
                        chunks.push(ext_bytes.clone());
                    }
                    chunks.extend([chunk(tileset_chunk(&ts1, 6, &mut None)), chunk(tileset_chunk(&ts2, 6, &mut None)), simple_layer(0, LayerKind::Tilemap { tileset: 0 }, 1), chunk(cel_chunk(&cel, Some(6), &mut None))]);
                    let mut b = header_bytes(1, 4, 4, 32);
                    b.extend(frame_bytes(&chunks, 1));
                    v.push((format!("tileset-defined-twice-{}-then-{}-count{}{}", n1, n2, count2, if with_ext { "-with-external-files-chunk" } else { "" }), b));
                }
            }
        }
    }
    // degenerate tilesets and tilemaps: zero tiles, zero tile sizes, zero-sized maps, in combination
    for count in [0u32, 1] {
        for (tw, th) in [(0u16, 0u16), (0, 1), (1, 0), (1, 1)] {
            for (mw, mh) in [(0u16, 0u16), (0, 1), (1, 1)] {
                if (count, tw, th, mw, mh) == (1, 1, 1, 1, 1) {
                    continue;
                }
                let ts = Tileset { id: 0, flags: 2, count, tw, th, base_index: 1, name: String::new(), ext: (0, 0), pixels: vec![0u8; count as usize * tw as usize * th as usize * 4] };
                let cel = Cel { layer: 0, x: 0, y: 0, opacity: 255, content: CelContent::Tilemap { w: mw, h: mh, bits: 32, masks: [0x1fffffff, 0x20000000, 0x40000000, 0x80000000], tiles: vec![0u32; mw as usize * mh as usize] }, user_data: None };
                let mut b = header_bytes(1, 4, 4, 32);
                b.extend(frame_bytes(&[chunk(tileset_chunk(&ts, 6, &mut None)), simple_layer(0, LayerKind::Tilemap { tileset: 0 }, 1), chunk(cel_chunk(&cel, Some(6), &mut None))], 1));
                v.push((format!("degenerate-tileset-count{}-{}x{}-map-{}x{}", count, tw, th, mw, mh), b));
            }
        }
    }
    // a chunk (of every known type, and an unknown one) that declares 256 MiB, in a frame that declares as much, in a
    // file that ends right after the chunk header
    for ty in [0x0004u16, 0x0011, 0x2004, 0x2005, 0x2006, 0x2007, 0x2008, 0x2016, 0x2017, 0x2018, 0x2019, 0x2020, 0x2022, 0x2023, 0x2abc] {
        let mut b = header_bytes(1, 4, 4, 32);
        let csz = 0x1000_0000u32;
        b.extend_from_slice(&(16 + csz).to_le_bytes());
        b.extend_from_slice(&0xF1FAu16.to_le_bytes());
        b.extend_from_slice(&1u16.to_le_bytes());
        b.extend_from_slice(&100u16.to_le_bytes());
        b.extend_from_slice(&[0, 0]);
        b.extend_from_slice(&1u32.to_le_bytes());
        b.extend_from_slice(&csz.to_le_bytes());
        b.extend_from_slice(&ty.to_le_bytes());
        b.extend_from_slice(&[0u8; 40]);
        v.push((format!("chunk-and-frame-declare-256MiB-type-{:#06x}", ty), b));
    }
    // deflate-bomb tilesets of 8 Mi one-pixel tiles, declared consistently (per-tile bookkeeping must not dwarf the
    // pixel data), alone and followed by user data chunks
    for (name, depth) in [("indexed", 8u16), ("gray", 16)] {
        let count = 8u32 << 20;
        let ts = Tileset { id: 0, flags: 2, count, tw: 1, th: 1, base_index: 1, name: String::new(), ext: (0, 0), pixels: vec![0u8; count as usize * (depth as usize / 8)] };
        let tsc = chunk(tileset_chunk(&ts, 9, &mut None));
        let pal = chunk(palette_chunk(&NewPalette { first: 0, entries: vec![PalEntry { rgba: [0, 0, 0, 255], name: None }] }, &mut None));
        let ud = |t: &str| chunk(user_data_chunk(&UserData { text: Some(t.into()), color: None }));
        for with_ud in [false, true] {
            let mut chunks = vec![pal.clone(), tsc.clone()];
            if with_ud {
                chunks.extend([ud("tileset"), ud("tile 0"), ud("tile 1")]);
            }
            let mut b = header_bytes(1, 4, 4, depth);
            b.extend(frame_bytes(&chunks, 1));
            v.push((format!("bomb-tileset-8Mi-1x1-tiles-{}{}", name, if with_ud { "-then-user-data" } else { "" }), b));
        }
    }
    // tilemap bombs with 8 and 16 bits per tile (refused today; a reader that accepts them must not turn each
    // inflated byte into a much larger in-memory tile)
    for bits in [8u16, 16] {
        let side = 4100u16;
        let raw = vec![0u8; side as usize * side as usize * (bits as usize / 8)];
        let ts = Tileset { id: 0, flags: 2, count: 1, tw: 1, th: 1, base_index: 1, name: String::new(), ext: (0, 0), pixels: vec![0; 4] };
        let mut w = W::new(0x2005);
        w.u16(Kind::Index, "cel_layer", 0);
        w.i16(Kind::Offset, "cel_x", 0);
        w.i16(Kind::Offset, "cel_y", 0);
        w.u8(Kind::Opacity, "cel_opacity", 255);
        w.u16(Kind::Enum, "cel_type", 3);
        w.reserved(7, &mut None);
        w.u16(Kind::Dim, "tm_w", side);
        w.u16(Kind::Dim, "tm_h", side);
        w.u16(Kind::Enum, "tm_bits", bits);
        let full = if bits == 8 { 0xFFu32 } else { 0xFFFF };
        for m in [full >> 3, 1 << (bits - 3), 1 << (bits - 2), 1 << (bits - 1)] {
            w.u32(Kind::Value, "tm_mask", m);
        }
        w.reserved(10, &mut None);
        w.bytes(Kind::Payload, "tm_zlib", &zlib(&raw, 9));
        let mut b = header_bytes(1, 4, 4, 32);
        b.extend(frame_bytes(&[chunk(tileset_chunk(&ts, 9, &mut None)), simple_layer(0, LayerKind::Tilemap { tileset: 0 }, 1), chunk(w)], 1));
        v.push((format!("bomb-tilemap-{}-bits-per-tile", bits), b));
    }
    // a well-formed file: one large, highly compressible cel and many frames linking to it
    // (any per-link copy of the pixel data multiplies memory)
    for (side, nlinks) in [(1024u16, 63usize), (700, 400)] {
        let px = vec![0u8; side as usize * side as usize * 4];
        let mut b = header_bytes((nlinks + 1) as u16, 8, 8, 32);
        b.extend(frame_bytes(&[simple_layer(0, LayerKind::Image, 1), image_cel(0, side, side, px, Some(9))], 1));
        let link = chunk(cel_chunk(&Cel { layer: 0, x: 0, y: 0, opacity: 255, content: CelContent::Link { frame: 0 }, user_data: None }, None, &mut None));
        for _ in 0..nlinks {
            b.extend(frame_bytes(&[link.clone()], 1));
        }
        v.push((format!("big-cel-{}-with-{}-links", side, nlinks), b));
    }
    {
        // one tileset, many frames each with a (compressible) tilemap cel
        let ts = Tileset { id: 0, flags: 2, count: 2, tw: 256, th: 256, base_index: 1, name: String::new(), ext: (0, 0), pixels: vec![0; 2 * 256 * 256 * 4] };
        let nf = 200usize;
        let mut b = header_bytes(nf as u16, 8, 8, 32);
        let tiles = vec![1u32; 64 * 64];
        let cel = Cel { layer: 0, x: 0, y: 0, opacity: 255, content: CelContent::Tilemap { w: 64, h: 64, bits: 32, masks: [0x1fffffff, 0x20000000, 0x40000000, 0x80000000], tiles }, user_data: None };
        let celc = chunk(cel_chunk(&cel, Some(9), &mut None));
        for f in 0..nf {
            let mut chunks = vec![];
            if f == 0 {
                chunks.push(chunk(tileset_chunk(&ts, 9, &mut None)));
                chunks.push(simple_layer(0, LayerKind::Tilemap { tileset: 0 }, 1));
            }
            chunks.push(celc.clone());
            b.extend(frame_bytes(&chunks, 1));
        }
        v.push(("tileset-with-200-tilemap-frames".into(), b));
    }
    v
}

// ---------------------------------------------------------------- verdict mapping

pub struct Camp {
    pub focus: Focus,
    pub pool: Arc<Pool>,
}

pub fn describe(v: &Verdict) -> String {
    format!("{:?}", v).chars().take(300).collect()
}

pub fn judge(focus: Focus, bytes: &[u8], v: &Verdict, ops: &[String], wellformed: bool) -> CheckResult {
    let h = hash_bytes(bytes);
    let detail = || json!({"input_hex": if bytes.len() <= 6000 { hex(bytes) } else { format!("{}... ({} bytes; see .ase file)", hex(&bytes[..256]), bytes.len()) }, "ops": ops, "verdict": describe(v), "len": bytes.len()});
    let mut o = Outcome::new(false, h);
    for op in ops {
        let k = op.split(|c| c == '@' || c == '=').next().unwrap_or(op);
        o.labels.push(format!("op:{}", k));
    }
    match v {
        Verdict::Timeout { cpu_ms, loaded } => {
            // A wall-clock budget alone is never a violation. Only when the worker burned >= 20 s of CPU
            // time (not wall time: robust against machine load) on a small input that is not one of the
            // deliberately heavy stress shapes do we call it "fails to return" (C04's own wording).
            let heavy = ops.iter().any(|o| o.starts_with("shape:"));
            if *cpu_ms >= 20_000 && !heavy && bytes.len() <= (1 << 20) {
                let stage = if *loaded { "while calling accessors after a successful load" } else { "inside AsepriteFile::read" };
                match focus {
                    Focus::C04 if *loaded => {}
                    Focus::C05 if !*loaded => {}
                    Focus::C04 | Focus::C05 => {
                        return Err(Failure::new("no-return", format!("worker consumed {} ms of CPU on a {}-byte input without returning ({}); inputs of this size normally take < 10 ms", cpu_ms, bytes.len(), stage)).with(detail()));
                    }
                    Focus::C12 => {}
                }
            }
            o.labels.push("watchdog-timeout".into());
            o.counters.push(("timeouts", 1));
            return Ok(o);
        }
        Verdict::Denied { live, req, delivered, bound } => {
            let msg = format!("allocation refused: live {} + request {} exceeds bound {} (64 MiB + 8192 x {} bytes delivered)", live, req, bound, delivered);
            match focus {
                Focus::C12 => return Err(Failure::new(format!("mem-bound:{}", mem_family(ops)), msg).with(detail())),
                Focus::C04 => {
                    if live.saturating_add(*req) > (16u64 << 30) {
                        return Err(Failure::new("alloc-abort", format!("reservation beyond 16 GiB would abort the process: {}", msg)).with(detail()));
                    }
                    o.labels.push("excluded:memory-bound(C12)".into());
                    return Ok(o);
                }
                Focus::C05 => {
                    o.labels.push("excluded:memory-bound(C12)".into());
                    return Ok(o);
                }
            }
        }
        Verdict::Died { what } if what.starts_with("harness-panic:") => return Err(Failure::new(what.clone(), format!("harness bug: worker {}", what)).with(detail())),
        Verdict::Died { what } => match focus {
            Focus::C04 => return Err(Failure::new(format!("load-died:{}", sig_word(what)), format!("worker died during load: {}", what)).with(detail())),
            Focus::C12 if what.contains("alloc-failure") => return Err(Failure::new("mem-bound:alloc-failure-abort", format!("allocation failure during load: {}", what)).with(detail())),
            _ => {
                o.labels.push("excluded:load-died(C04)".into());
                return Ok(o);
            }
        },
        Verdict::Done { load, usev, consumed, mem } => {
            o.counters.push(("bytes_consumed", *consumed));
            let reached_dispatch = *consumed > 128 + 16 + 6;
            match load {
                LoadV::Panic { loc, msg } => {
                    if focus == Focus::C04 {
                        return Err(Failure::new(format!("load-panic:{}", loc), format!("load panicked at {}: {}", loc, msg)).with(detail()));
                    }
                    o.labels.push("excluded:load-panic(C04)".into());
                    return Ok(o);
                }
                LoadV::Err(kind) => {
                    o.labels.push(format!("load-err:{}", kind));
                    match focus {
                        Focus::C04 => o.nontrivial = reached_dispatch,
                        Focus::C12 => o.nontrivial = reached_dispatch && !wellformed,
                        Focus::C05 => {}
                    }
                }
                LoadV::Ok => {
                    o.labels.push("load-ok".into());
                    o.counters.push(("loaded", 1));
                    match focus {
                        Focus::C04 => o.nontrivial = reached_dispatch,
                        Focus::C12 => o.nontrivial = reached_dispatch && !wellformed,
                        Focus::C05 => {}
                    }
                }
            }
            if focus == Focus::C12 {
                o.counters.push(("peak_live_max_kib", 0));
                let bound = crate::alloc::BASE + crate::alloc::PER_BYTE * mem.delivered as i64;
                if mem.peak > bound {
                    // deny mode would have stopped this; reaching here means counting-only mode
                    return Err(Failure::new(format!("mem-bound:{}", mem_family(ops)), format!("peak live {} exceeds {}", mem.peak, bound)).with(detail()));
                }
            }
            if focus == Focus::C05 {
                match usev {
                    UseV::NotRun => {}
                    UseV::Ok { calls, images, skipped_heavy, special } => {
                        o.counters.push(("api_calls", *calls));
                        o.counters.push(("images_rendered", *images));
                        o.counters.push(("skipped_heavy", *skipped_heavy));
                        o.nontrivial = !wellformed || *special;
                        if !wellformed {
                            o.labels.push("accepted-corrupted".into());
                        }
                    }
                    UseV::Panic { loc, msg } if loc.starts_with("harness/") => return Err(Failure::new(format!("harness-panic:{}", loc), format!("harness bug: {}", msg)).with(detail())),
                    UseV::Panic { loc, msg } => return Err(Failure::new(format!("use-panic:{}", loc), format!("file loaded, then an accessor panicked at {}: {}", loc, msg)).with(detail())),
                    UseV::Dims(m) => return Err(Failure::new("use-dims", format!("file loaded, then: {}", m)).with(detail())),
                    UseV::Died { what } if what.starts_with("harness-panic:") => return Err(Failure::new(what.clone(), format!("harness bug: worker {}", what)).with(detail())),
                    UseV::Died { what } => return Err(Failure::new(format!("use-died:{}", sig_word(what)), format!("file loaded, then the process died while calling accessors: {}", what)).with(detail())),
                }
            }
        }
    }
    o.sample = Some(json!({"len": bytes.len(), "ops": ops, "verdict": describe(v), "hex_prefix": hex(&bytes[..bytes.len().min(64)])}));
    Ok(o)
}

fn sig_word(what: &str) -> String {
    what.split(|c: char| !(c.is_ascii_alphanumeric() || c == '-')).next().unwrap_or("").to_string()
}

fn mem_family(ops: &[String]) -> String {
    // identify the family by the first patched field / tweak, without offsets or values
    for op in ops {
        if let Some(r) = op.strip_prefix("patch:") {
            return r.split('@').next().unwrap_or(r).to_string();
        }
    }
    ops.first().map(|s| s.split('@').next().unwrap_or(s).to_string()).unwrap_or_else(|| "unknown".into())
}

pub fn flags_for(focus: Focus) -> u32 {
    match focus {
        Focus::C04 => F_DENY,
        Focus::C05 => F_DENY | F_EXERCISE,
        Focus::C12 => F_DENY,
    }
}

pub fn golden_seeds() -> Vec<(String, Vec<u8>)> {
    let mut v = vec![];
    for dir in [format!("{}/seeds", verif_dir()), "/repo/tests/data".to_string()] {
        if let Ok(rd) = std::fs::read_dir(dir) {
            let mut names: Vec<_> = rd.filter_map(|e| e.ok()).map(|e| e.path()).filter(|p| p.extension().map_or(false, |x| x == "aseprite" || x == "ase")).collect();
            names.sort();
            for p in names {
                if let Ok(b) = std::fs::read(&p) {
                    v.push((p.file_name().unwrap().to_string_lossy().to_string(), b));
                }
            }
            if !v.is_empty() {
                break;
            }
        }
    }
    v
}

/// The whole campaign for one focus.
pub fn campaign(run: &mut Run, focus: Focus) {
    let lanes = 16usize;
    let pool = Pool::new(lanes);
    let thorough = run.thorough();
    let flags = flags_for(focus);
    let seed = run.seed;

    // (0) regression inputs
    let regdir = format!("{}/regressions/{}", verif_dir(), run.prop);
    let mut regs: Vec<(String, Vec<u8>)> = vec![];
    for d in [regdir, format!("{}/regressions/shared", verif_dir())] {
        if let Ok(rd) = std::fs::read_dir(&d) {
            let mut ps: Vec<_> = rd.filter_map(|e| e.ok()).map(|e| e.path()).collect();
            ps.sort();
            for p in ps {
                if let Ok(b) = std::fs::read(&p) {
                    regs.push((p.to_string_lossy().to_string(), b));
                }
            }
        }
    }
    for (name, b) in &regs {
        let v = pool.run(0, b, flags, 1);
        let r = judge(focus, b, &v, &[format!("regression:{}", name)], false);
        run.direct(|| json!({"hex": hex(b), "ops": [name]}), r);
    }

    // (0b) C12 only: a warm-up pass of the stress shapes (deflate bombs etc.) through every worker, so that
    // the inputs that follow run in processes with a history of large loads
    if focus == Focus::C12 {
        let mut warm = stress_shapes(false);
        {
            // one large but entirely honest sprite (100 MB of pixels from ~100 KB of input)
            let side = 5000u16;
            let px = vec![0u8; side as usize * side as usize * 4];
            let mut b = header_bytes(1, 4, 4, 32);
            b.extend(frame_bytes(&[simple_layer(0, LayerKind::Image, 1), image_cel(0, side, side, px, Some(9))], 1));
            warm.push(("warm-up-honest-5000".into(), b));
        }
        let _ = par_chunks(lanes, (warm.len() * 2) as u64, || (), |_, i| {
            let (_, b) = &warm[(i as usize) % warm.len()];
            if b.len() < (1 << 20) {
                let _ = pool.run((i as usize * 7 + i as usize / warm.len()) % lanes, b, flags, i);
            }
        });
    }

    // (A) tape-driven hostile inputs with shrinking
    let cases = if thorough { 60000 } else { 5000 };
    {
        let pool2 = pool.clone();
        let lane_counter = std::sync::atomic::AtomicUsize::new(0);
        let check = move |tape: &[u32]| -> CheckResult {
            let lane = LANE.with(|l| {
                if l.get() == 0 {
                    l.set(1 + lane_counter.fetch_add(1, std::sync::atomic::Ordering::Relaxed));
                }
                l.get() - 1
            });
            let b = build_hostile(tape);
            let v = pool2.run(lane, &b.bytes, flags, crate::encode::mix(seed, b.bytes.len() as u64));
            judge(focus, &b.bytes, &v, &b.ops, b.wellformed)
        };
        run_tapes(run, lanes, cases, 600, &check);
    }

    // (B) exhaustive single-field sweeps over base files
    let nbase = if thorough { 400 } else { 48 };
    let mut bases: Vec<(String, Vec<u8>, Vec<Field>)> = vec![];
    for i in 0..nbase {
        // base files are a pure function of the seed
        let mut r = Rng(lane_seed(seed, run.prop, 1000 + i as u64));
        let tape: Vec<u32> = (0..500).map(|_| r.next() as u32).collect();
        let mut t = Tape::new(&tape);
        let s = build_sprite(&mut t, &small_cfg());
        let mut plan = build_plan(&mut t);
        plan.pad_to = (0, 0); // tens of thousands of padding chunks would swamp the per-field sweep
        let e = encode(&s, &plan);
        if e.fields.len() > 4000 {
            continue;
        }
        bases.push((format!("generated-{}", i), e.bytes, e.fields));
    }
    let goldens = golden_seeds();
    for (name, b) in &goldens {
        if b.len() <= 8192 || thorough {
            let sc = scan::scan(b);
            let fields = scan::generic_fields(b, &sc);
            // goldens have many chunks; subsample generic fields in the quick tier
            let fields: Vec<Field> = if thorough { fields } else { fields.into_iter().filter(|f| f.name != "payload_u8" && (f.off % 3 == 0 || f.chunk <= 1 || f.name.starts_with("chunk"))).collect() };
            bases.push((name.clone(), b.clone(), fields));
        }
    }
    let mut work: Vec<(usize, usize, u64)> = vec![];
    for (bi, (_, bytes, fields)) in bases.iter().enumerate() {
        for (fi, f) in fields.iter().enumerate() {
            if f.kind == Kind::Payload || f.len > 4 {
                continue;
            }
            if focus == Focus::C12 && !matches!(f.kind, Kind::Size | Kind::Count | Kind::Dim | Kind::Index | Kind::StrLen | Kind::Value | Kind::Enum) {
                continue;
            }
            let orig = read_field(bytes, f);
            let mut vals = boundary_values(f.len, orig);
            if f.kind == Kind::Enum && focus != Focus::C12 {
                // enumerations and small selectors: every value up to 48, not only the boundaries
                vals.extend((0..=48u64).filter(|v| *v != orig));
                vals.sort();
                vals.dedup();
            }
            for v in vals {
                if focus == Focus::C12 && v < orig {
                    continue;
                }
                work.push((bi, fi, v));
            }
        }
    }
    let results = par_chunks(
        lanes,
        work.len() as u64,
        || (Stats::default(), Vec::<Violation>::new(), std::collections::BTreeMap::<String, u64>::new()),
        |acc, i| {
            let (bi, fi, val) = work[i as usize];
            let (bname, bytes, fields) = &bases[bi];
            let f = &fields[fi];
            let mut b = bytes.clone();
            patch(&mut b, f, val);
            let lane = (i % lanes as u64) as usize;
            let v = pool.run(lane, &b, flags, i);
            let ops = vec![format!("patch:{}@{}={:#x}", f.name, f.off, val), format!("base:{}", bname)];
            match judge(focus, &b, &v, &ops, false) {
                Ok(mut o) => {
                    o.labels.retain(|l| !l.starts_with("op:base"));
                    o.labels.push(format!("sweep-kind:{:?}", f.kind));
                    acc.0.record(&o)
                }
                Err(fl) => {
                    acc.0.evaluations += 1;
                    *acc.2.entry(fl.signature.clone()).or_insert(0) += 1;
                    if acc.1.len() < 3 && !acc.1.iter().any(|x| x.failure.signature == fl.signature) {
                        acc.1.push(Violation { case: json!({"hex": hex(&b), "ops": ops}), failure: fl });
                    }
                }
            }
        },
    );
    for (st, viols, sigs) in results {
        run.stats.merge(st);
        for v in viols {
            if run.is_known(&v.failure.signature) {
                continue;
            }
            if run.violations.len() < 8 && !run.violations.iter().any(|x| x.failure.signature == v.failure.signature) {
                run.violations.push(v);
            }
        }
        for (s, n) in sigs {
            if run.is_known(&s) {
                *run.stats.excluded_known.entry(s).or_insert(0) += n;
            }
        }
    }
    // (B1b) pairs: two size/count/dimension fields of the same base inflated together (a cap that is itself
    // declared by the file only gives way when both fields lie)
    let mut pairs: Vec<(usize, usize, usize, u64, u64)> = vec![];
    for (bi, (bname, _bytes, fields)) in bases.iter().enumerate().take(if thorough { 200 } else { 32 }) {
        if !bname.starts_with("generated-") {
            continue;
        }
        let idx: Vec<usize> = fields.iter().enumerate().filter(|(_, f)| matches!(f.kind, Kind::Size | Kind::Count | Kind::Dim) && f.len <= 4 && !f.name.starts_with("payload")).map(|(i, _)| i).collect();
        for (a, &i) in idx.iter().enumerate() {
            for &j in idx.iter().skip(a + 1) {
                // only pairs that are close together (same or adjacent chunk / frame header + chunk)
                if fields[j].off - fields[i].off > 96 {
                    continue;
                }
                let max = |f: &Field| if f.len == 1 { 0xFFu64 } else if f.len == 2 { 0xFFFF } else { 0xFFFF_FFFF };
                pairs.push((bi, i, j, max(&fields[i]), max(&fields[j])));
                pairs.push((bi, i, j, max(&fields[i]) / 2 + 1, max(&fields[j]) / 2 + 1));
                pairs.push((bi, i, j, max(&fields[i]) >> 4, max(&fields[j]) >> 4));
            }
        }
    }
    let pres = par_chunks(
        lanes,
        pairs.len() as u64,
        || (Stats::default(), Vec::<Violation>::new()),
        |acc, k| {
            let (bi, i, j, vi, vj) = pairs[k as usize];
            let (bname, bytes, fields) = &bases[bi];
            let mut b = bytes.clone();
            patch(&mut b, &fields[i], vi);
            patch(&mut b, &fields[j], vj);
            let v = pool.run((k % lanes as u64) as usize, &b, flags, k);
            let ops = vec![format!("patch:{}+{}@{}={:#x}/{:#x}", fields[i].name, fields[j].name, fields[i].off, vi, vj), format!("base:{}", bname)];
            match judge(focus, &b, &v, &ops, false) {
                Ok(mut o) => {
                    o.labels.retain(|l| !l.starts_with("op:"));
                    o.labels.push("sweep-pair".into());
                    acc.0.record(&o)
                }
                Err(fl) => {
                    acc.0.evaluations += 1;
                    if acc.1.len() < 2 && !acc.1.iter().any(|x| x.failure.signature == fl.signature) {
                        acc.1.push(Violation { case: json!({"hex": hex(&b), "ops": ops}), failure: fl });
                    }
                }
            }
        },
    );
    for (st, viols) in pres {
        run.stats.merge(st);
        for v in viols {
            if !run.is_known(&v.failure.signature) && run.violations.len() < 8 && !run.violations.iter().any(|x| x.failure.signature == v.failure.signature) {
                run.violations.push(v);
            }
        }
    }
    run.extra.insert("pair_sweep_inputs".into(), json!(pairs.len()));
    run.extra.insert("sweep_inputs".into(), json!(work.len()));
    run.extra.insert("sweep_base_files".into(), json!(bases.len()));

    // (B2) every-chunk-boundary truncations of the base files
    for (bi, (bname, bytes, _)) in bases.iter().enumerate().take(if thorough { 200 } else { 24 }) {
        let sc = scan::scan(bytes);
        let mut cuts: Vec<usize> = vec![0, 1, 127, 128, 129, 143, 144];
        for c in &sc.chunks {
            for d in 0..4usize {
                cuts.push(c.start.saturating_sub(d));
                cuts.push(c.start + d);
                cuts.push(c.end.saturating_sub(d));
            }
        }
        cuts.retain(|c| *c < bytes.len());
        cuts.sort();
        cuts.dedup();
        for c in cuts {
            let b = &bytes[..c];
            let v = pool.run(bi % lanes, b, flags, c as u64);
            let ops = vec![format!("truncate@{}", c), format!("base:{}", bname)];
            let r = judge(focus, b, &v, &ops, false);
            run.direct(|| json!({"hex": hex(b), "ops": ops}), r);
        }
    }

    // (B2b) consistent chunk shortening: every chunk of the generated bases cut to every body length below its own
    // (all lengths up to 96, sampled beyond), with the chunk-size, frame-size and file-size fields adjusted - the
    // chunk ends early but nothing else in the file is inconsistent
    {
        let mut work: Vec<(usize, usize, usize)> = vec![];
        // the generated bases, plus a few of them with an ICC colour-profile chunk (64 bytes of profile data) put in
        // front of the first frame's chunks - refused today, but a chunk kind with an inner length field
        let mut sb: Vec<(String, Vec<u8>)> = bases.iter().filter(|(n, _, _)| n.starts_with("generated-")).take(if thorough { 300 } else { 40 }).map(|(n, b, _)| (n.clone(), b.clone())).collect();
        let icc: Vec<u8> = {
            let mut w = W::new(0x2007);
            w.u16(Kind::Enum, "cp_type", 2);
            w.u16(Kind::Flags, "cp_flags", 0);
            w.u32(Kind::Value, "cp_gamma", 0);
            w.reserved(8, &mut None);
            w.u32(Kind::Size, "cp_icc_len", 64);
            w.bytes(Kind::Payload, "cp_icc", &[0x5A; 64]);
            chunk(w)
        };
        let nicc = if thorough { 24 } else { 6 };
        let with_icc: Vec<(String, Vec<u8>)> = sb.iter().take(nicc).filter_map(|(n, b)| {
            let sc = scan::scan(b);
            if !sc.complete || sc.frames.is_empty() {
                return None;
            }
            let mut p = to_pieces_raw(b, &sc)?;
            p.frames[0].1.insert(0, icc.clone());
            Some((format!("{}+icc", n), assemble(&p, true)))
        }).collect();
        sb.extend(with_icc);
        let bases = &sb;
        let scans: Vec<scan::Scan> = bases.iter().map(|(_, b)| scan::scan(b)).collect();
        for (bi, (bname, _)) in bases.iter().enumerate() {
            if !scans[bi].complete {
                continue;
            }
            for (ci, c) in scans[bi].chunks.iter().enumerate() {
                // in the +icc variants only the inserted chunk is swept (the rest was swept in the plain base)
                if bname.ends_with("+icc") && c.ctype != 0x2007 {
                    continue;
                }
                let body = c.end - c.start - 6;
                for l in 0..body {
                    if l < 96 || l % (1 + body / 16) == 0 || l + 8 >= body {
                        work.push((bi, ci, l));
                    }
                }
            }
        }
        let results = par_chunks(
            lanes,
            work.len() as u64,
            || (Stats::default(), Vec::<Violation>::new()),
            |acc, i| {
                let (bi, ci, l) = work[i as usize];
                let (bname, bytes) = &bases[bi];
                let c = &scans[bi].chunks[ci];
                let cut = (c.end - c.start - 6) - l;
                let mut b = Vec::with_capacity(bytes.len());
                b.extend_from_slice(&bytes[..c.start + 6 + l]);
                b.extend_from_slice(&bytes[c.end..]);
                b[c.start..c.start + 4].copy_from_slice(&((6 + l) as u32).to_le_bytes());
                let fs = scans[bi].frames[c.frame as usize].0;
                let fsz = u32::from_le_bytes([b[fs], b[fs + 1], b[fs + 2], b[fs + 3]]).wrapping_sub(cut as u32);
                b[fs..fs + 4].copy_from_slice(&fsz.to_le_bytes());
                if u32::from_le_bytes([bytes[0], bytes[1], bytes[2], bytes[3]]) as usize == bytes.len() {
                    let n = b.len() as u32;
                    b[0..4].copy_from_slice(&n.to_le_bytes());
                }
                let lane = (i % lanes as u64) as usize;
                let v = pool.run(lane, &b, flags, i);
                let ops = vec![format!("shorten-chunk:type={:#06x}@{} body {}->{}", c.ctype, c.start, c.end - c.start - 6, l), format!("base:{}", bname)];
                match judge(focus, &b, &v, &ops, false) {
                    Ok(mut o) => {
                        o.labels.retain(|l| !l.starts_with("op:base") && !l.starts_with("op:shorten"));
                        o.labels.push(format!("shorten-chunk:{:#06x}", c.ctype));
                        acc.0.record(&o)
                    }
                    Err(fl) => {
                        acc.0.evaluations += 1;
                        if acc.1.len() < 3 && !acc.1.iter().any(|x| x.failure.signature == fl.signature) {
                            acc.1.push(Violation { case: json!({"hex": hex(&b), "ops": ops}), failure: fl });
                        }
                    }
                }
            },
        );
        for (st, viols) in results {
            run.stats.merge(st);
            for v in viols {
                if run.is_known(&v.failure.signature) {
                    *run.stats.excluded_known.entry(v.failure.signature.clone()).or_insert(0) += 1;
                    continue;
                }
                if run.violations.len() < 8 && !run.violations.iter().any(|x| x.failure.signature == v.failure.signature) {
                    run.violations.push(v);
                }
            }
        }
    }

    // (B3) the path-based entry point (AsepriteFile::read_file): every base file with its header
    // file-size field set to each boundary value, and the unmodified base
    if focus == Focus::C12 || focus == Focus::C04 {
        let mut rf: Vec<(usize, Option<u64>)> = vec![];
        for (bi, (_, bytes, _)) in bases.iter().enumerate() {
            rf.push((bi, None));
            let orig = u32::from_le_bytes([bytes[0], bytes[1], bytes[2], bytes[3]]) as u64;
            for v in boundary_values(4, orig) {
                rf.push((bi, Some(v)));
            }
            rf.push((bi, Some(bytes.len() as u64 / 2)));
        }
        let res = par_chunks(
            lanes,
            rf.len() as u64,
            || (Stats::default(), Vec::<Violation>::new()),
            |acc, k| {
                let (bi, val) = rf[k as usize];
                let (bname, bytes, _) = &bases[bi];
                let mut b = bytes.clone();
                if let Some(v) = val {
                    b[0..4].copy_from_slice(&(v as u32).to_le_bytes());
                }
                let v = pool.run((k % lanes as u64) as usize, &b, flags | F_READFILE, k);
                let ops = vec![format!("read_file:file_size={:?}", val), format!("base:{}", bname)];
                match judge(focus, &b, &v, &ops, false) {
                    Ok(mut o) => {
                        o.hash ^= 0xF11E;
                        o.labels.retain(|l| !l.starts_with("op:"));
                        o.labels.push("entry:read_file".into());
                        acc.0.record(&o)
                    }
                    Err(fl) => {
                        acc.0.evaluations += 1;
                        if acc.1.len() < 2 && !acc.1.iter().any(|x| x.failure.signature == fl.signature) {
                            acc.1.push(Violation { case: json!({"hex": hex(&b), "ops": ops, "read_file": true}), failure: fl });
                        }
                    }
                }
            },
        );
        for (st, viols) in res {
            run.stats.merge(st);
            for v in viols {
                if !run.is_known(&v.failure.signature) && run.violations.len() < 8 && !run.violations.iter().any(|x| x.failure.signature == v.failure.signature) {
                    run.violations.push(v);
                }
            }
        }
        run.extra.insert("read_file_inputs".into(), json!(rf.len()));
    }

    // (C) stress shapes
    pool.set_timeout(120_000);
    let shapes = stress_shapes(thorough);
    let shape_results = par_chunks(
        lanes.min(8),
        shapes.len() as u64,
        || Vec::<(usize, Verdict)>::new(),
        |acc, i| {
            let (_, b) = &shapes[i as usize];
            let v = pool.run(i as usize % lanes, b, flags, i);
            acc.push((i as usize, v));
        },
    );
    for lane_res in shape_results {
        for (i, v) in lane_res {
            let (name, b) = &shapes[i];
            let ops = vec![format!("shape:{}", name)];
            let mut r = judge(focus, b, &v, &ops, false);
            if let Ok(o) = &mut r {
                // stress shapes are deliberately unusual inputs
                if !matches!(v, Verdict::Timeout { .. }) {
                    o.nontrivial = true;
                }
            }
            let path = format!("{}/evidence/replay/{}-shape-{}.ase", out_dir(), run.prop, name);
            let is_err = r.is_err();
            run.direct(|| json!({"shape": name, "ase_file": path.clone(), "hex": if b.len() < 4000 { hex(b) } else { String::new() }}), r);
            if is_err {
                let _ = std::fs::create_dir_all(format!("{}/evidence/replay", out_dir()));
                let _ = std::fs::write(&path, b);
            }
        }
    }
    // (C2) unoptimised build (profile dev0: opt-level 0 for the library, overflow checks and debug
    // assertions on): stress shapes, chunk-boundary truncations and a fixed sample of hostile tapes
    if focus == Focus::C04 {
        let exe = format!("{}/dev0/vcheck", target_dir());
        if std::path::Path::new(&exe).exists() {
            let p0 = Pool::with_exe(lanes, Some(exe));
            p0.set_timeout(300_000);
            let mut n0 = 0u64;
            let res = par_chunks(
                lanes.min(8),
                shapes.len() as u64,
                || Vec::<(usize, Verdict)>::new(),
                |acc, i| {
                    let (_, b) = &shapes[i as usize];
                    acc.push((i as usize, p0.run(i as usize % lanes, b, flags, i)));
                },
            );
            for lane_res in res {
                for (i, v) in lane_res {
                    let (name, b) = &shapes[i];
                    let ops = vec![format!("shape:{}", name), "profile:dev0".to_string()];
                    let r = judge(focus, b, &v, &ops, false).map(|mut o| {
                        o.hash ^= 0xD0;
                        o.labels.push("profile-dev0".into());
                        o
                    });
                    n0 += 1;
                    run.direct(|| json!({"shape": name, "profile": "dev0", "hex": if b.len() < 4000 { hex(b) } else { String::new() }}), r);
                }
            }
            let sample = if thorough { 20_000u64 } else { 1_500 };
            let res = par_chunks(
                lanes,
                sample,
                || (Stats::default(), Vec::<Violation>::new()),
                |acc, i| {
                    let mut r = Rng(lane_seed(seed, "dev0-sample", i));
                    let tape: Vec<u32> = (0..500).map(|_| r.next() as u32).collect();
                    let b = build_hostile(&tape);
                    let v = p0.run((i % lanes as u64) as usize, &b.bytes, flags, i);
                    let mut ops = b.ops.clone();
                    ops.push("profile:dev0".into());
                    match judge(focus, &b.bytes, &v, &ops, b.wellformed) {
                        Ok(mut o) => {
                            o.hash ^= 0xD0;
                            o.labels.push("profile-dev0".into());
                            acc.0.record(&o)
                        }
                        Err(f) => {
                            acc.0.evaluations += 1;
                            if acc.1.len() < 2 {
                                acc.1.push(Violation { case: json!({"hex": hex(&b.bytes), "ops": ops, "profile": "dev0"}), failure: f });
                            }
                        }
                    }
                },
            );
            for (st, vs) in res {
                run.stats.merge(st);
                for v in vs {
                    if !run.is_known(&v.failure.signature) && !run.violations.iter().any(|x| x.failure.signature == v.failure.signature) {
                        run.violations.push(v);
                    }
                }
            }
            run.extra.insert("dev0_profile_inputs".into(), json!(n0 + sample));
        } else {
            run.extra.insert("dev0_profile_inputs".into(), json!("skipped: dev0 build not present"));
        }
    }
    // (D) coverage-guided fuzzing (thorough tier of C04/C05 only)
    if thorough && focus != Focus::C12 {
        pool.set_timeout(60_000);
        fuzz_stage(run, focus, &pool);
        if focus == Focus::C04 {
            asan_stage(run);
        }
    }
    let timeouts = run.stats.counters.get("timeouts").copied().unwrap_or(0);
    if timeouts > 0 {
        run.inconclusive = Some(format!("{} case(s) hit the per-case watchdog", timeouts));
    }
    run.extra.insert("worker_restarts".into(), json!(pool.restarts.load(std::sync::atomic::Ordering::Relaxed)));
    run.extra.insert("stress_shapes".into(), json!(shapes.iter().map(|s| s.0.clone()).collect::<Vec<_>>()));
}

pub fn replay_bytes(focus: Focus, case: &Value) -> CheckResult {
    if case.get("asan").and_then(|b| b.as_bool()).unwrap_or(false) {
        // found by the AddressSanitizer build of the byte target: only that build can show it again
        let bytes = unhex(case.get("hex").and_then(|h| h.as_str()).unwrap_or(""));
        let dir = format!("{}/asan-replay-{}", target_dir(), std::process::id());
        let _ = std::fs::create_dir_all(&dir);
        let f = format!("{}/input", dir);
        let _ = std::fs::write(&f, &bytes);
        let out = asan_run(&format!("cargo +nightly fuzz run -s address --target-dir {}/fuzz-asan bytes_load_use {} -- -runs=1 2>&1 | tail -60", target_dir(), f));
        let _ = std::fs::remove_dir_all(&dir);
        return match asan_error(&out) {
            Some(kind) => Err(Failure::new(format!("asan:{}", kind), format!("AddressSanitizer: {} while loading/using the input", kind))),
            None => Ok(Outcome::new(true, 0)),
        };
    }
    let bytes = if let Some(h) = case.get("hex").and_then(|h| h.as_str()).filter(|h| !h.is_empty()) {
        unhex(h)
    } else if let Some(p) = case.get("ase_file").and_then(|p| p.as_str()) {
        std::fs::read(p).map_err(|e| Failure::new("bad-replay", format!("cannot read {}: {}", p, e)))?
    } else if let Some(tape) = tape_from_case(case) {
        build_hostile(&tape).bytes
    } else {
        return Err(Failure::new("bad-replay", "replay case has neither hex, ase_file nor tape"));
    };
    let pool = Pool::new(1);
    pool.set_timeout(300_000);
    let v = pool.run(0, &bytes, flags_for(focus), 1);
    println!("verdict: {}", describe(&v));
    let v = if case.get("read_file").and_then(|b| b.as_bool()).unwrap_or(false) { pool.run(0, &bytes, flags_for(focus) | F_READFILE, 1) } else { v };
    judge(focus, &bytes, &v, &["replay".to_string()], false)
}

/// In-process oracle for the libFuzzer targets: load; if it loads, exercise the whole API.
/// A panic propagates (libFuzzer reports it as a crash); nothing else is asserted here.
pub fn fuzz_one(data: &[u8]) {
    if data.len() > (1 << 20) {
        return;
    }
    let hints = scan::scan(data).hints;
    if let Ok(f) = asefile::AsepriteFile::read(data) {
        let seed = hash_bytes(&data[..data.len().min(64)]);
        if let Err(d) = crate::exercise::exercise(&f, seed, &hints) {
            panic!("documented dimensions violated: {}", d);
        }
    }
}

// ---------------------------------------------------------------- libFuzzer stage (thorough tier, S7)

fn asan_run(cmd: &str) -> String {
    let hdir = format!("{}/harness", verif_dir());
    match std::process::Command::new("bash").arg("-c").arg(cmd).current_dir(&hdir).env("CARGO_NET_OFFLINE", "true").env("ASAN_OPTIONS", "allocator_may_return_null=1:detect_leaks=0").output() {
        Ok(o) => format!("{}{}", String::from_utf8_lossy(&o.stdout), String::from_utf8_lossy(&o.stderr)),
        Err(e) => e.to_string(),
    }
}

/// The kind of memory error AddressSanitizer reports in this log, if any. Its complaints about allocation sizes
/// and memory limits are C12's subject, not a memory-safety error.
fn asan_error(log: &str) -> Option<String> {
    for l in log.lines() {
        if let Some(i) = l.find("ERROR: AddressSanitizer: ") {
            let kind = l[i + 25..].split_whitespace().next().unwrap_or("?").to_string();
            if ["allocation-size-too-big", "out-of-memory", "requested", "failed"].iter().any(|x| kind.starts_with(x)) {
                continue;
            }
            return Some(kind);
        }
    }
    None
}

/// C04 thorough: the byte target once more, built with AddressSanitizer (the library has no `unsafe` of its own today;
/// its dependencies have, and a change could add some). A memory error that does not panic is invisible to the worker
/// oracle, so here the sanitizer's report is the verdict.
pub fn asan_stage(run: &mut Run) {
    if std::env::var("VERIF_REPO").is_ok() || std::env::var("VERIF_NO_FUZZ").is_ok() {
        run.extra.insert("libfuzzer_asan".into(), json!("skipped (path-override or VERIF_NO_FUZZ run)"));
        return;
    }
    let tdir = format!("{}/fuzz-asan", target_dir());
    let out = asan_run(&format!("cargo +nightly fuzz build -s address --target-dir {} bytes_load_use 2>&1 | tail -3; exit ${{PIPESTATUS[0]}}", tdir));
    if !out.contains("Finished") {
        run.extra.insert("libfuzzer_asan".into(), json!(format!("skipped: AddressSanitizer build failed: {}", out.chars().rev().take(300).collect::<String>().chars().rev().collect::<String>())));
        return;
    }
    let work = format!("{}/fuzz-work-asan-{}", target_dir(), std::process::id());
    let (corpus, arts, logs) = (format!("{}/corpus", work), format!("{}/artifacts", work), format!("{}/logs", work));
    for d in [&corpus, &arts, &logs] {
        let _ = std::fs::create_dir_all(d);
    }
    let mut n = 0;
    for (name, b) in golden_seeds() {
        if b.len() <= 65536 {
            let _ = std::fs::write(format!("{}/golden-{}", corpus, name), b);
            n += 1;
        }
    }
    for i in 0..150u64 {
        let mut r = Rng(lane_seed(run.seed, "asan-seed", i));
        let tape: Vec<u32> = (0..400).map(|_| r.next() as u32).collect();
        let b = build_hostile(&tape);
        if b.bytes.len() <= 65536 {
            let _ = std::fs::write(format!("{}/gen-{}", corpus, i), &b.bytes);
            n += 1;
        }
    }
    let hdir = format!("{}/harness", verif_dir());
    let _ = asan_run(&format!(
        "cargo +nightly fuzz run -s address --target-dir {tdir} bytes_load_use {corpus} -- -runs=100000000 -seed={seed} -max_len=65536 -len_control=0 -rss_limit_mb=6000 -malloc_limit_mb=1500 -timeout=60 -max_total_time=90 -artifact_prefix={arts}/ -jobs=8 -workers=8 -print_final_stats=1 > {logs}/driver.log 2>&1; mv {hdir}/fuzz-*.log {logs}/ 2>/dev/null; true",
        tdir = tdir, corpus = corpus, seed = (run.seed % 1_000_000) + 21, arts = arts, logs = logs, hdir = hdir
    ));
    let mut execs = 0u64;
    let mut reports = 0u64;
    if let Ok(rd) = std::fs::read_dir(&logs) {
        for e in rd.filter_map(|e| e.ok()) {
            if let Ok(t) = std::fs::read_to_string(e.path()) {
                for l in t.lines() {
                    if let Some(x) = l.strip_prefix("stat::number_of_executed_units:") {
                        execs += x.trim().parse::<u64>().unwrap_or(0);
                    }
                }
                if let Some(kind) = asan_error(&t) {
                    reports += 1;
                    // the unit libFuzzer wrote for this report
                    let art = t.lines().filter_map(|l| l.split("Test unit written to ").nth(1)).last().map(|s| s.trim().to_string());
                    let bytes = art.and_then(|a| std::fs::read(a).ok()).unwrap_or_default();
                    let f = Failure::new(format!("asan:{}", kind), format!("AddressSanitizer reports {} while loading/using a {}-byte input", kind, bytes.len()));
                    run.direct(|| json!({"hex": hex(&bytes), "asan": true, "ops": ["libfuzzer:bytes_load_use:address-sanitizer"]}), Err(f));
                }
            }
        }
    }
    run.extra.insert("libfuzzer_asan".into(), json!({"target": "bytes_load_use", "sanitizer": "address", "seed_corpus": n, "executed_units": execs, "seconds": 90, "sanitizer_reports": reports}));
    run.stats.counters.entry("libfuzzer_executed_units".into()).and_modify(|x| *x += execs).or_insert(execs);
    let _ = std::fs::remove_dir_all(&work);
}

/// Coverage-guided campaigns on the two cargo-fuzz targets. Every artifact libFuzzer saves is
/// re-checked by the deterministic worker oracle before anything is reported; an artifact the
/// oracle does not confirm (e.g. libFuzzer's own malloc limit) is only counted.
pub fn fuzz_stage(run: &mut Run, focus: Focus, pool: &Arc<Pool>) {
    if std::env::var("VERIF_REPO").is_ok() || std::env::var("VERIF_NO_FUZZ").is_ok() {
        run.extra.insert("libfuzzer".into(), json!("skipped (path-override or VERIF_NO_FUZZ run)"));
        return;
    }
    let hdir = format!("{}/harness", verif_dir());
    let work = format!("{}/fuzz-work-{}-{}", target_dir(), run.prop, std::process::id());
    let _ = std::fs::remove_dir_all(&work);
    let sh = |cmd: &str, cwd: &str| -> (i32, String) {
        match std::process::Command::new("bash").arg("-c").arg(cmd).current_dir(cwd).env("CARGO_NET_OFFLINE", "true").output() {
            Ok(o) => (o.status.code().unwrap_or(-1), format!("{}{}", String::from_utf8_lossy(&o.stdout), String::from_utf8_lossy(&o.stderr))),
            Err(e) => (-1, e.to_string()),
        }
    };
    let (rc, out) = sh("cargo +nightly fuzz build -s none 2>&1 | tail -5; exit ${PIPESTATUS[0]}", &hdir);
    if rc != 0 {
        run.extra.insert("libfuzzer".into(), json!(format!("skipped: cargo fuzz build failed: {}", out.chars().rev().take(300).collect::<String>().chars().rev().collect::<String>())));
        return;
    }
    let mut summary = vec![];
    for (ti, target) in ["bytes_load_use", "structured_load_use"].iter().enumerate() {
        let corpus = format!("{}/{}/corpus", work, target);
        let arts = format!("{}/{}/artifacts", work, target);
        let logs = format!("{}/{}/logs", work, target);
        for d in [&corpus, &arts, &logs] {
            let _ = std::fs::create_dir_all(d);
        }
        // seed corpus: golden files + generated well-formed and hostile files (bytes target) or tapes (structured)
        let mut n = 0;
        if ti == 0 {
            for (name, b) in golden_seeds() {
                if b.len() <= 65536 {
                    let _ = std::fs::write(format!("{}/golden-{}", corpus, name), b);
                    n += 1;
                }
            }
        }
        for i in 0..200u64 {
            let mut r = Rng(lane_seed(run.seed, "fuzz-seed", i));
            let tape: Vec<u32> = (0..400).map(|_| r.next() as u32).collect();
            if ti == 0 {
                let b = build_hostile(&tape);
                if b.bytes.len() <= 65536 {
                    let _ = std::fs::write(format!("{}/gen-{}", corpus, i), &b.bytes);
                    n += 1;
                }
            } else {
                let bytes: Vec<u8> = tape.iter().flat_map(|w| w.to_le_bytes()).collect();
                let _ = std::fs::write(format!("{}/tape-{}", corpus, i), bytes);
                n += 1;
            }
        }
        let runs = 400_000;
        let cmd = format!(
            "cd {hdir} && cargo +nightly fuzz run -s none {target} {corpus} -- -runs={runs} -seed={seed} -max_len=65536 -len_control=0 -rss_limit_mb=6000 -malloc_limit_mb=1500 -timeout=60 -max_total_time=200 -artifact_prefix={arts}/ -jobs=8 -workers=8 -print_final_stats=1 > {logs}/driver.log 2>&1; mv {hdir}/fuzz-*.log {logs}/ 2>/dev/null; true",
            logs = logs, hdir = hdir, target = target, corpus = corpus, runs = runs, seed = (run.seed % 1_000_000) + 1 + ti as u64, arts = arts
        );
        let (_rc, _o) = sh(&cmd, &hdir);
        // executed units
        let mut execs = 0u64;
        if let Ok(rd) = std::fs::read_dir(&logs) {
            for e in rd.filter_map(|e| e.ok()) {
                if let Ok(t) = std::fs::read_to_string(e.path()) {
                    for l in t.lines() {
                        if let Some(x) = l.strip_prefix("stat::number_of_executed_units:") {
                            execs += x.trim().parse::<u64>().unwrap_or(0);
                        }
                    }
                }
            }
        }
        // artifacts -> deterministic oracle
        let mut confirmed = 0u64;
        let mut unconfirmed = 0u64;
        if let Ok(rd) = std::fs::read_dir(&arts) {
            let mut ps: Vec<_> = rd.filter_map(|e| e.ok()).map(|e| e.path()).collect();
            ps.sort();
            for p in ps.into_iter().take(40) {
                let raw = match std::fs::read(&p) {
                    Ok(b) => b,
                    Err(_) => continue,
                };
                let bytes = if ti == 0 {
                    raw
                } else {
                    let tape: Vec<u32> = raw.chunks(4).map(|c| { let mut w = [0u8; 4]; w[..c.len()].copy_from_slice(c); u32::from_le_bytes(w) }).collect();
                    build_hostile(&tape).bytes
                };
                let v = pool.run(0, &bytes, flags_for(focus), 7);
                let ops = vec![format!("libfuzzer:{}:{}", target, p.file_name().unwrap().to_string_lossy())];
                let r = judge(focus, &bytes, &v, &ops, false);
                if r.is_err() {
                    confirmed += 1;
                } else {
                    unconfirmed += 1;
                }
                run.direct(|| json!({"hex": hex(&bytes), "ops": ops}), r);
            }
        }
        summary.push(json!({"target": target, "seed_corpus": n, "executed_units": execs, "artifacts_confirmed": confirmed, "artifacts_unconfirmed": unconfirmed}));
        run.stats.counters.entry("libfuzzer_executed_units".into()).and_modify(|x| *x += execs).or_insert(execs);
    }
    run.extra.insert("libfuzzer".into(), json!(summary));
    let _ = std::fs::remove_dir_all(&work);
}
