//! C04 — loading is total.
use super::robust::*;
use crate::runner::*;

pub fn run(run: &mut Run) {
    run.rule = "inputs: (A) tape-built hostile files (well-formed model -> hostile model tweaks -> encode -> boundary-value field patches, structural chunk/frame edits, truncation, bit flips), shrunk by proptest; (B) exhaustive single-field boundary sweeps over generated base files and the repository's golden files; (B2) truncation at every chunk boundary +-3; (C) stress shapes. Each input is loaded in an isolated worker on a 2 MiB thread with overflow checks and debug assertions on. Oracle: verdict is a sprite or an error value (panic, process death, stack overflow, >16 GiB reservation = violation; watchdog = inconclusive). non-trivial: the parser consumed more than 150 bytes (reached chunk dispatch); distinct by 64-bit content hash".into();
    run.assumptions = vec!["a reservation is treated as an abort only when live+request exceeds 16 GiB; smaller bound violations are C12's".into(), "optimised build with overflow-checks and debug-assertions (profile 'checked')".into()];
    campaign(run, Focus::C04);
}

pub fn replay(case: &serde_json::Value) -> CheckResult {
    replay_bytes(Focus::C04, case)
}
