//! C14 — result independent of reader behaviour; I/O errors are returned (fault enumeration).
use crate::encode::{encode, Rng};
use crate::gen::{build_plan, build_sprite, GenCfg, Tape};
use crate::observe::observe;
use crate::runner::*;
use asefile::{AsepriteFile, AsepriteParseError};
use serde_json::json;
use std::io::{BufReader, ErrorKind, Read};

pub fn cfg() -> GenCfg {
    let mut c = GenCfg::full();
    c.canvas_typ = 10;
    c.max_cel = 6;
    c.max_layers = 4;
    c.max_frames = 3;
    c.tile_aligned = false;
    c.scale = false; // per-position / per-offset enumeration: keep the files small
    c
}

#[derive(Debug)]
struct Marker(usize);
impl std::fmt::Display for Marker {
    fn fmt(&self, f: &mut std::fmt::Formatter<'_>) -> std::fmt::Result {
        write!(f, "injected fault at byte {}", self.0)
    }
}
impl std::error::Error for Marker {}

struct SchedReader<'a> {
    data: &'a [u8],
    pos: usize,
    /// cycle of read sizes; 0 = return ErrorKind::Interrupted once
    sched: &'a [u16],
    idx: usize,
    err_at: Option<(usize, ErrorKind)>,
    reads: usize,
    /// the injected error is reported once; afterwards the reader goes on delivering (a timed-out socket read)
    one_shot: bool,
    fired: bool,
    /// the injected io::Error carries an AsepriteParseError as its payload instead of the harness's marker
    lib_payload: bool,
}

impl<'a> Read for SchedReader<'a> {
    fn read(&mut self, buf: &mut [u8]) -> std::io::Result<usize> {
        self.reads += 1;
        let armed = !(self.one_shot && self.fired);
        if let Some((k, kind)) = self.err_at {
            if self.pos >= k && armed {
                self.fired = true;
                if self.lib_payload {
                    // glue code that wraps one of the library's own errors into an io::Error
                    return Err(std::io::Error::new(kind, AsepriteParseError::InvalidInput(format!("injected fault at byte {}", k))));
                }
                return Err(std::io::Error::new(kind, Marker(k)));
            }
        }
        let s = self.sched[self.idx % self.sched.len()];
        self.idx += 1;
        if s == 0 {
            return Err(std::io::Error::from(ErrorKind::Interrupted));
        }
        let mut n = (s as usize).min(buf.len()).min(self.data.len() - self.pos);
        if let Some((k, _)) = self.err_at {
            if armed {
                n = n.min(k - self.pos);
            }
        }
        buf[..n].copy_from_slice(&self.data[self.pos..self.pos + n]);
        self.pos += n;
        Ok(n)
    }
}

const KINDS: [ErrorKind; 8] = [ErrorKind::Other, ErrorKind::BrokenPipe, ErrorKind::ConnectionReset, ErrorKind::ConnectionAborted, ErrorKind::TimedOut, ErrorKind::PermissionDenied, ErrorKind::UnexpectedEof, ErrorKind::InvalidData];

fn schedules(t: &mut Tape, n: usize) -> Vec<Vec<u16>> {
    let mut v: Vec<Vec<u16>> = vec![vec![1], vec![2], vec![3], vec![4], vec![7], vec![8], vec![16], vec![64], vec![4096], vec![0, 1], vec![0, 0, 0, 5], vec![1, 0], vec![65535], vec![1, 2, 4, 8, 16, 32, 64, 128], vec![0, 0, 0, 0, 0, 0, 0, 1]];
    while v.len() < n {
        let len = 1 + t.below(12) as usize;
        let mut s: Vec<u16> = (0..len)
            .map(|_| match t.below(6) {
                0 => 0,
                1 => 1,
                2 => 1 + t.below(4) as u16,
                3 => 1 + t.below(64) as u16,
                _ => 1 + t.below(5000) as u16,
            })
            .collect();
        if s.iter().all(|x| *x == 0) {
            s.push(1);
        }
        v.push(s);
    }
    v
}

pub fn check(tape: &[u32], thorough: bool) -> CheckResult {
    let mut t = Tape::new(tape);
    let mut s = build_sprite(&mut t, &cfg());
    let big_chunk = t.chance(1, 3);
    if big_chunk {
        // a chunk larger than 64 KiB (incompressible pixels), so buffered/blockwise payload readers are exercised
        let bpp = s.fmt.bpp();
        let (w, h) = (100 + t.below(80) as u16, (70000 / bpp / 100) as u16 + 20 + t.below(60) as u16);
        let pal: Vec<u8> = s.effective_palette().map(|m| m.keys().filter(|k| **k < 256).map(|k| *k as u8).collect()).unwrap_or_default();
        let mut r = crate::encode::Rng(t.raw64());
        let n = w as usize * h as usize * bpp;
        let pixels: Vec<u8> = match s.fmt {
            crate::model::Fmt::Indexed if pal.is_empty() => vec![],
            crate::model::Fmt::Indexed => (0..n).map(|_| pal[(r.next() % pal.len() as u64) as usize]).collect(),
            _ => (0..n).map(|_| r.next() as u8).collect(),
        };
        if !pixels.is_empty() {
            let li = s.layers.len() as u16;
            s.layers.push(crate::model::Layer { flags: 3, kind: crate::model::LayerKind::Image, level: 0, blend: 0, opacity: 200, name: "big".into(), user_data: None });
            let fi = t.below(s.frames.len() as u32) as usize;
            s.frames[fi].cels.push(crate::model::Cel { layer: li, x: -3, y: -2, opacity: 255, content: crate::model::CelContent::Image { w, h, pixels }, user_data: None });
        }
    }
    let plan = build_plan(&mut t);
    let enc = encode(&s, &plan);
    let model = super::c01::summarize(&s);
    let (sched_count, interrupted, mut faults, scheds, kinds) = run_on(&enc.bytes, enc.last_frame_end(), &mut t, thorough, tape.len(), &model, true)?.expect("base variant always returns counters");
    let bytes = &enc.bytes;
    let l = enc.last_frame_end();
    // A frame whose size field covers more than its chunks (padding after the last chunk). The unchanged library
    // refuses such files; a reader that accepts them has to treat them like any other file: same result under every
    // read schedule, and an I/O error inside the padding of a non-last frame is an error before the needed data.
    let mut padded_label = None;
    if enc.frame_starts.len() >= 2 && t.chance(2, 3) {
        // (never the last frame: whether padding after the last chunk of the file is "needed data" is open)
        let fi = t.below(enc.frame_starts.len() as u32 - 1) as usize;
        let pad = 6 + t.below(40) as usize;
        let (fs, fe) = (enc.frame_starts[fi], enc.frame_ends[fi]);
        let mut pb = bytes[..fe].to_vec();
        // the padding must not look like a frame header: a reader that ignores frame sizes would otherwise parse it
        // as the following frames and "accept" the file by accident
        pb.extend(std::iter::repeat(0xA5u8).take(pad));
        pb.extend_from_slice(&bytes[fe..]);
        let fsz = u32::from_le_bytes([pb[fs], pb[fs + 1], pb[fs + 2], pb[fs + 3]]) + pad as u32;
        pb[fs..fs + 4].copy_from_slice(&fsz.to_le_bytes());
        if u32::from_le_bytes([bytes[0], bytes[1], bytes[2], bytes[3]]) as usize == bytes.len() {
            let n = pb.len() as u32;
            pb[0..4].copy_from_slice(&n.to_le_bytes());
        }
        match run_on(&pb, l + pad, &mut t, thorough, tape.len() + 1, &model, false)? {
            Some((_, _, f2, _, _)) => {
                faults += f2;
                padded_label = Some("padded-frame:accepted");
            }
            None => padded_label = Some("padded-frame:refused"),
        }
    }
    let mut o = Outcome::new(true, hash_bytes(bytes));
    o.counters.push(("schedules", sched_count));
    o.counters.push(("schedules_with_interrupted", interrupted));
    o.counters.push(("fault_injections", faults));
    o.labels.push(if l <= 8192 { "every-offset".into() } else { "sampled-offsets".into() });
    if let Some(pl) = padded_label {
        o.labels.push(pl.into());
    }
    if enc.chunks.iter().any(|c| c.end - c.start > 65536 + 6) {
        o.labels.push("chunk>64KiB".into());
    }
    o.sample = Some(json!({"file_len": bytes.len(), "last_frame_end": l, "schedules": scheds.iter().take(4).collect::<Vec<_>>(), "kinds": kinds.iter().map(|k| format!("{:?}", k)).collect::<Vec<_>>()}));
    Ok(o)
}

type RunCounters = (u64, u64, u64, Vec<Vec<u16>>, Vec<ErrorKind>);

/// All schedules and fault injections for one byte string whose last frame ends at `l`. `must_load` = false: a file
/// that does not load in memory is skipped (returns None).
fn run_on(bytes: &[u8], l: usize, t: &mut Tape, thorough: bool, salt: usize, model: &serde_json::Value, must_load: bool) -> Result<Option<RunCounters>, Failure> {
    let detail = |extra: serde_json::Value| json!({"input_hex": if bytes.len() < 8000 { hex(bytes) } else { String::new() }, "model": model, "what": extra});
    let base = match AsepriteFile::read(bytes) {
        Ok(f) => f,
        Err(_) if !must_load => return Ok(None),
        Err(e) => return Err(Failure::new("load-error", format!("well-formed file failed to load: {}", e)).with(detail(json!(null)))),
    };
    let want = observe(&base, true);
    let mut sched_count = 0u64;
    let mut interrupted = 0u64;
    // benign schedules
    let scheds = schedules(t, if thorough { 60 } else { 40 });
    for (si, sc) in scheds.iter().enumerate() {
        let via_buf = t.below(3);
        let cap = 1 + t.below(8192) as usize;
        let rd = SchedReader { data: bytes, pos: 0, sched: sc, idx: 0, err_at: None, reads: 0, one_shot: false, fired: false, lib_payload: false };
        let r = match via_buf {
            0 => AsepriteFile::read(rd),
            1 => AsepriteFile::read(BufReader::with_capacity(cap, rd)),
            _ => AsepriteFile::read(BufReader::with_capacity(1 + (cap % 16), rd)),
        };
        sched_count += 1;
        if sc.contains(&0) {
            interrupted += 1;
        }
        match r {
            Ok(f) => {
                let got = observe(&f, true);
                if got != want {
                    return Err(Failure::new("schedule-changes-result", format!("read schedule {:?} (buffered: {}) changed the observation: {}", sc, via_buf, super::c07::diff_obs(&got, &want))).with(detail(json!({"schedule": sc}))));
                }
            }
            Err(e) => {
                let sig = if sc.contains(&0) { "interrupted-not-retried" } else { "short-read-fails" };
                return Err(Failure::new(sig, format!("read schedule #{} {:?} (buffered: {}) made loading fail: {}", si, sc, via_buf, e)).with(detail(json!({"schedule": sc}))));
            }
        }
    }
    // file-backed reader
    {
        let dir = format!("{}/c14-scratch", target_dir());
        let _ = std::fs::create_dir_all(&dir);
        let path = format!("{}/{}-{:016x}.ase", dir, std::process::id(), hash_bytes(bytes) ^ hash_bytes(&(salt as u64).to_le_bytes()));
        std::fs::write(&path, bytes).map_err(|e| Failure::new("harness", format!("scratch write failed: {}", e)))?;
        let r = AsepriteFile::read_file(std::path::Path::new(&path));
        let _ = std::fs::remove_file(&path);
        match r {
            Ok(f) => {
                if observe(&f, true) != want {
                    return Err(Failure::new("read-file-differs", "read_file gives a different observation than the in-memory load").with(detail(json!(null))));
                }
            }
            Err(e) => return Err(Failure::new("read-file-fails", format!("read_file failed: {}", e)).with(detail(json!(null)))),
        }
    }
    // hard errors at every offset
    let kinds: Vec<ErrorKind> = if thorough { KINDS.to_vec() } else { vec![KINDS[t.below(8) as usize], KINDS[(1 + t.below(7)) as usize % 8]] };
    let step = if l <= 8192 { 1 } else { l / 4096 + 1 };
    let sc_small = [3u16, 0, 1, 50];
    let mut faults = 0u64;
    for kind in &kinds {
        let mut k = 0usize;
        while k < l + 3 {
            for (sched, buffered, one_shot) in [(&[4096u16][..], false, false), (&sc_small[..], k % 7 == 0, false), (&[4096u16][..], k % 2 == 0, true)] {
                if one_shot && k % 3 != 1 {
                    continue;
                }
                let lib_payload = !one_shot && k % 5 == 2 && sched.len() == 1;
                let rd = SchedReader { data: bytes, pos: 0, sched, idx: 0, err_at: Some((k, *kind)), reads: 0, one_shot, fired: false, lib_payload };
                let r = if buffered { AsepriteFile::read(BufReader::with_capacity(16, rd)) } else { AsepriteFile::read(rd) };
                faults += 1;
                if k < l {
                    match r {
                        Ok(_) => return Err(Failure::new("fault-ignored", format!("I/O error {:?} injected at byte {} (< end of last frame {}) but a sprite was returned", kind, k, l)).with(detail(json!({"offset": k, "kind": format!("{:?}", kind)})))),
                        Err(AsepriteParseError::IoError(e)) => {
                            if e.kind() != *kind {
                                return Err(Failure::new("fault-kind-changed", format!("injected {:?} at {}, got io error kind {:?}", kind, k, e.kind())).with(detail(json!({"offset": k}))));
                            }
                            if lib_payload {
                                let ok = matches!(e.get_ref().and_then(|r| r.downcast_ref::<AsepriteParseError>()), Some(AsepriteParseError::InvalidInput(m)) if m.ends_with(&format!("byte {}", k)));
                                if !ok {
                                    return Err(Failure::new("fault-payload-lost", format!("injected {:?} at {} with one of the library's own error values as payload: the returned io::Error does not carry it ({:?})", kind, k, e)).with(detail(json!({"offset": k}))));
                                }
                            }
                            let ok = lib_payload || e.get_ref().and_then(|r| r.downcast_ref::<Marker>()).map_or(false, |m| m.0 == k);
                            if !ok {
                                return Err(Failure::new("fault-payload-lost", format!("injected {:?} at {}: returned io::Error does not carry the injected error ({:?})", kind, k, e)).with(detail(json!({"offset": k}))));
                            }
                            let outer = AsepriteParseError::IoError(e);
                            let src = std::error::Error::source(&outer);
                            let src_ok = lib_payload && src.and_then(|s| s.downcast_ref::<std::io::Error>()).is_some() || src.and_then(|s| s.downcast_ref::<std::io::Error>()).and_then(|io| io.get_ref()).and_then(|r| r.downcast_ref::<Marker>()).map_or(false, |m| m.0 == k);
                            if !src_ok {
                                return Err(Failure::new("fault-source-missing", format!("injected {:?} at {}: Error::source() is not the injected io::Error", kind, k)).with(detail(json!({"offset": k}))));
                            }
                        }
                        Err(other) => {
                            return Err(Failure::new("fault-wrong-variant", format!("injected {:?} at byte {}: expected the IoError variant, got {:?}", kind, k, other)).with(detail(json!({"offset": k, "kind": format!("{:?}", kind)}))));
                        }
                    }
                } else {
                    match r {
                        Ok(f) => {
                            if k == l && observe(&f, false) != observe(&base, false) {
                                return Err(Failure::new("fault-after-end-changes-result", "error after the last frame changed the result").with(detail(json!({"offset": k}))));
                            }
                        }
                        // every byte of the sprite has been delivered before the reader starts failing (a reset
                        // connection after the payload, the next member of a stream being unreadable): the result
                        // depends only on the byte sequence, so the sprite must be returned
                        Err(e) => return Err(Failure::new("fault-after-end-fails", format!("all {} bytes of the sprite were delivered, then the reader reported an I/O error (at byte {}): loading failed with {}", l, k, e)).with(detail(json!({"offset": k})))),
                    }
                }
            }
            k += step;
        }
    }
    Ok(Some((sched_count, interrupted, faults, scheds, kinds)))
}

pub fn run(run: &mut Run) {
    run.rule = "cases: a well-formed generated file x (>= 40 read schedules: fixed sizes 1,2,3,4,7,8,16,64,4096, seeded random size cycles, cycles containing ErrorKind::Interrupted incl. several in a row, each directly or through BufReader of capacity 1..8192; read_file on a real scratch file) x (a hard error of each chosen kind injected at EVERY byte offset 0..end-of-last-frame+2 for files <= 8 KiB, stepped above; delivered both in one-shot and short-read/interrupted/buffered modes). Oracle: benign schedules give the in-memory observation; a fault before the end of the last frame gives Err(IoError(e)) with e.kind() = injected kind, e carrying the injected marker payload, and Error::source() being that io::Error; a fault at/after the end gives Ok with the same observation. A case is one file with all its schedules and faults (counters report schedules and injections); non-trivial: every case (each contains short reads inside multi-byte fields, Interrupted results and fault offsets inside chunk payloads); distinct by file hash".into();
    run.assumptions = vec!["quick tier: 2 seeded error kinds per file; thorough: all 8 kinds".into()];
    let thorough = run.thorough();
    let (lanes, cases) = if thorough { (16, 400) } else { (16, 20) };
    let f = move |tape: &[u32]| check(tape, thorough);
    run_tapes(run, lanes, cases, 800, &f);
}

pub fn replay(case: &serde_json::Value) -> CheckResult {
    let tape = tape_from_case(case).ok_or_else(|| Failure::new("bad-replay", "no tape in replay file"))?;
    // the tier decides how many schedules and error kinds are drawn from the tape: replay both readings
    check_guarded(|| check(&tape, false))?;
    check_guarded(|| check(&tape, true))
}
