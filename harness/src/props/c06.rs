//! C06 — cel pixels decode correctly (direct formula oracle, no blend code).
use crate::encode::encode;
use crate::gen::{build_plan, build_sprite, GenCfg, Tape};
use crate::model::*;
use crate::observe::canon;
use crate::refimpl;
use crate::runner::*;
use asefile::AsepriteFile;
use serde_json::json;

pub fn cfg() -> GenCfg {
    let mut c = GenCfg::full();
    c.tile_aligned = false;
    c.tags = false;
    c.slices = false;
    c.ext_files = false;
    c.cel_density = 6;
    c
}

pub fn check(tape: &[u32]) -> CheckResult {
    let mut t = Tape::new(tape);
    let s = build_sprite(&mut t, &cfg());
    let plan = build_plan(&mut t);
    let mut enc = encode(&s, &plan);
    // a quarter of the sprites carry non-zero values in the cels' reserved / z-index bytes: everything compared here
    // is per cel (coordinates, emptiness, offset, image of the cel alone), none of it depends on draw order
    if tape.len() % 4 == 1 {
        crate::encode::junk_zindex(&mut enc, &mut crate::encode::Rng(tape.len() as u64 * 77 + 5));
    }
    let detail = |extra: serde_json::Value| json!({"model": super::c01::summarize(&s), "plan": format!("{:?}", plan), "input_hex": if enc.bytes.len() < 8000 { hex(&enc.bytes) } else { String::new() }, "where": extra});
    let f = AsepriteFile::read(&enc.bytes[..]).map_err(|e| Failure::new("load-error", format!("well-formed file failed to load: {}", e)).with(detail(json!(null))))?;
    let mut nontrivial = false;
    let mut labels: Vec<String> = vec![format!("fmt-{:?}", s.fmt)];
    let mut cels = 0u64;
    for fi in 0..s.frames.len() {
        for li in 0..s.layers.len() {
            let c = f.cel(fi as u32, li as u32);
            let m = s.cel(fi, li);
            let at = json!({"frame": fi, "layer": li, "cel": m.map(|c| format!("{:?}", (c.x, c.y, c.opacity, match &c.content { CelContent::Image { w, h, .. } => format!("image {}x{}", w, h), CelContent::Link { frame } => format!("link->{}", frame), CelContent::Tilemap { w, h, .. } => format!("tilemap {}x{}", w, h) })))});
            if c.frame() != fi as u32 || c.layer() != li as u32 {
                return Err(Failure::new("cel-coords", format!("cel({},{}) reports frame {} layer {}", fi, li, c.frame(), c.layer())).with(detail(at)));
            }
            if c.is_empty() != m.is_none() {
                return Err(Failure::new("cel-is-empty", format!("cel({},{}).is_empty() = {}, model has cel: {}", fi, li, c.is_empty(), m.is_some())).with(detail(at)));
            }
            let want_tl = m.map_or((0, 0), |c| (c.x as i32, c.y as i32));
            // for a linked cel the statement fixes only how it renders; its own stored offset and the
            // offset of the cel it links to are both accepted
            let alt_tl = match m.map(|c| &c.content) {
                Some(CelContent::Link { frame }) => s.cel(*frame as usize, li).map(|t| (t.x as i32, t.y as i32)),
                _ => None,
            };
            if c.top_left() != want_tl && Some(c.top_left()) != alt_tl {
                return Err(Failure::new("cel-top-left", format!("cel({},{}).top_left() = {:?}, stored {:?}", fi, li, c.top_left(), want_tl)).with(detail(at)));
            }
            let want_tm = m.map_or(false, |c| matches!(c.content, CelContent::Tilemap { .. }));
            if c.is_tilemap() != want_tm {
                return Err(Failure::new("cel-is-tilemap", format!("cel({},{}).is_tilemap() = {}", fi, li, c.is_tilemap())).with(detail(at)));
            }
            let got = canon(&c.image());
            let want = refimpl::cel_image(&s, fi, li);
            if let Some((x, y, a, b)) = got.first_diff(&want) {
                return Err(Failure::new("cel-image", format!("cel({},{}).image() differs at ({},{}): got {:?}, expected {:?} (dims {}x{} vs {}x{})", fi, li, x, y, a, b, got.w, got.h, want.w, want.h)).with(detail(at)));
            }
            if let Some(mc) = m {
                cels += 1;
                if let CelContent::Link { frame } = &mc.content {
                    let tgt = canon(&f.cel(*frame as u32, li as u32).image());
                    if tgt != got {
                        return Err(Failure::new("cel-link-image", format!("linked cel({},{}) renders differently from its target frame {}", fi, li, frame)).with(detail(at)));
                    }
                    labels.push("link".into());
                    if (*frame as usize) > fi {
                        labels.push("link-forward".into());
                    }
                    nontrivial = true;
                }
                let l = &s.layers[li];
                let prod = mul_un8(l.opacity as i32, mc.opacity as i32);
                if prod < 255 {
                    labels.push("opacity<255".into());
                    nontrivial = true;
                }
                if s.fmt != Fmt::Rgba {
                    nontrivial = true;
                }
                if l.flags & LF_BACKGROUND != 0 {
                    labels.push("background-layer".into());
                }
                if let Some(p) = refimpl::placed(&s, fi, li) {
                    let clipped = p.x < 0 || p.y < 0 || p.x + p.w as i32 > s.width as i32 || p.y + p.h as i32 > s.height as i32;
                    if clipped {
                        labels.push("clipped".into());
                        nontrivial = true;
                    }
                    if p.x >= s.width as i32 || p.y >= s.height as i32 || p.x + (p.w as i32) <= 0 || p.y + (p.h as i32) <= 0 {
                        labels.push("fully-off-canvas".into());
                    }
                }
                if let CelContent::Image { pixels, .. } = &mc.content {
                    if s.fmt == Fmt::Indexed && pixels.contains(&s.transparent) {
                        labels.push("has-transparent-index".into());
                        nontrivial = true;
                    }
                }
                if matches!(mc.content, CelContent::Tilemap { .. }) {
                    labels.push("tilemap-cel".into());
                }
            } else {
                labels.push("absent-cel".into());
            }
        }
    }
    if plan.compress != 1 {
        labels.push("raw-storage".into());
    }
    labels.sort();
    labels.dedup();
    let mut o = Outcome::new(nontrivial && cels > 0, hash_bytes(&enc.bytes));
    o.labels = labels;
    o.counters.push(("cels_checked", cels));
    o.sample = Some(json!({"model": super::c01::summarize(&s), "file_bytes": enc.bytes.len()}));
    Ok(o)
}

pub fn run(run: &mut Run) {
    run.rule = "cases: well-formed sprites in each pixel format from a proptest tape (sparse palettes, alpha<255, transparent index biased to occurring values, background flag, raw and zlib storage, inside/straddling/off-canvas/extreme offsets, links forward and backward, tilemap cels). Oracle: Cel::{image,is_empty,top_left,is_tilemap,frame,layer} equal a direct formula written from the statement (no blend code); linked cel image equals its target's. non-trivial: sprite has a cel that is non-RGBA, or has opacity product < 255, or is clipped, or is a link, or contains the transparent index; distinct by file hash".into();
    run.assumptions = vec!["fully transparent pixels compare equal regardless of RGB (the repository's image equivalence)".into()];
    let (lanes, cases) = if run.thorough() { (16, 30000) } else { (16, 5000) };
    run_tapes(run, lanes, cases, 1200, &check);
    // thorough only: coverage-guided search over generator tapes with the same oracle
    crate::fuzzstage::fuzz_tapes(run, 1200, 120);
}

pub fn replay(case: &serde_json::Value) -> CheckResult {
    let tape = tape_from_case(case).ok_or_else(|| Failure::new("bad-replay", "no tape in replay file"))?;
    check_guarded(|| check(&tape))
}
