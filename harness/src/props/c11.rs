//! C11 — palettes decode correctly; indexed files need a complete palette.
use crate::encode::{encode, finish_chunk, legacy_chunk, Plan, Rng};
use crate::gen::{build_plan, build_sprite, GenCfg, Tape};
use crate::model::*;
use crate::runner::*;
use asefile::AsepriteFile;
use serde_json::json;
use std::collections::BTreeMap;

pub fn cfg() -> GenCfg {
    let mut c = GenCfg::full();
    c.fmts = vec![Fmt::Indexed, Fmt::Indexed, Fmt::Rgba, Fmt::Gray];
    c.canvas_typ = 8;
    c.max_cel = 6;
    c.max_layers = 3;
    c.max_frames = 2;
    c.tags = false;
    c.slices = false;
    c.ext_files = false;
    c.user_data = false;
    c.tile_aligned = false;
    c
}

/// Model decode written from the format, with the 6-bit relation left open: returns id -> (rgb or 6-bit source, alpha, name, six_bit)
fn expected(s: &Sprite) -> Option<BTreeMap<u32, ([u8; 3], u8, Option<String>, bool)>> {
    if let Some(p) = &s.palette {
        let mut m = BTreeMap::new();
        for (i, e) in p.entries.iter().enumerate() {
            m.insert(p.first + i as u32, ([e.rgba[0], e.rgba[1], e.rgba[2]], e.rgba[3], e.name.clone(), false));
        }
        return Some(m);
    }
    if let Some(l) = &s.legacy {
        let mut m = BTreeMap::new();
        let mut skip = 0u32;
        for p in &l.packets {
            skip += p.skip as u32;
            for (k, c) in p.colors.iter().enumerate() {
                m.insert(skip + k as u32, (*c, 255, None, l.kind == 0x0011));
            }
        }
        return Some(m);
    }
    None
}

fn six_ok(v: u8, got: u8) -> bool {
    // what the statement pins: 0 -> 0, 63 -> 255, and a scaling of v/63 (tolerance 2 of 255)
    if v == 0 {
        return got == 0;
    }
    if v == 63 {
        return got == 255;
    }
    let ideal = 255.0 * v as f64 / 63.0;
    (got as f64 - ideal).abs() <= 2.0
}

fn compare_palette(s: &Sprite, f: &AsepriteFile) -> Result<(), Failure> {
    match (expected(s), f.palette()) {
        (None, None) => Ok(()),
        (Some(m), Some(p)) => {
            if p.num_colors() as usize != m.len() {
                return Err(Failure::new("palette-count", format!("num_colors {} != {}", p.num_colors(), m.len())));
            }
            for (id, (rgb, a, name, six)) in &m {
                let e = p.color(*id).ok_or_else(|| Failure::new("palette-entry-missing", format!("entry {} missing", id)))?;
                if e.id() != *id {
                    return Err(Failure::new("palette-entry-id", format!("entry {} reports id {}", id, e.id())));
                }
                let got = e.raw_rgba8();
                if got != [e.red(), e.green(), e.blue(), e.alpha()] {
                    return Err(Failure::new("palette-getters", format!("entry {} channel getters disagree with raw_rgba8", id)));
                }
                if *six {
                    for ch in 0..3 {
                        if !six_ok(rgb[ch], got[ch]) {
                            return Err(Failure::new("palette-6bit-scale", format!("entry {} channel {}: 6-bit {} scaled to {}", id, ch, rgb[ch], got[ch])));
                        }
                    }
                } else if got[..3] != rgb[..] {
                    return Err(Failure::new("palette-entry-rgb", format!("entry {} rgb {:?} != {:?}", id, &got[..3], rgb)));
                }
                if got[3] != *a {
                    return Err(Failure::new("palette-entry-alpha", format!("entry {} alpha {} != {}", id, got[3], a)));
                }
                if e.name() != name.as_deref() {
                    return Err(Failure::new("palette-entry-name", format!("entry {} name {:?} != {:?}", id, e.name(), name)));
                }
            }
            let lo = *m.keys().next().unwrap();
            let hi = *m.keys().last().unwrap();
            for probe in [lo.wrapping_sub(1), hi.wrapping_add(1)] {
                if !m.contains_key(&probe) && p.color(probe).is_some() {
                    return Err(Failure::new("palette-extra-entry", format!("entry {} should not exist", probe)));
                }
            }
            Ok(())
        }
        (a, b) => Err(Failure::new("palette-presence", format!("palette presence: model {} file {}", a.is_some(), b.is_some()))),
    }
}

/// dedicated 6-bit mapping probe: all 64 values in all channels
fn six_bit_map_check() -> CheckResult {
    let mut s = Sprite::empty(1, 1, Fmt::Rgba);
    s.legacy = Some(LegacyPalette { kind: 0x0011, packets: vec![LegacyPacket { skip: 0, colors: (0..64u32).map(|v| [v as u8, (63 - v) as u8, ((v * 7) % 64) as u8]).collect() }] });
    let enc = encode(&s, &Plan::plain());
    let f = AsepriteFile::read(&enc.bytes[..]).map_err(|e| Failure::new("load-error", format!("6-bit palette file failed to load: {}", e)))?;
    let p = f.palette().ok_or_else(|| Failure::new("palette-presence", "no palette"))?;
    let mut map = [0u8; 64];
    for v in 0..64u32 {
        let e = p.color(v).ok_or_else(|| Failure::new("palette-entry-missing", format!("entry {} missing", v)))?;
        map[v as usize] = e.red();
        if e.alpha() != 255 {
            return Err(Failure::new("palette-entry-alpha", "legacy entries must be opaque"));
        }
    }
    for v in 0..64usize {
        let e = p.color(v as u32).unwrap();
        if e.green() != map[63 - v] || e.blue() != map[(v * 7) % 64] {
            return Err(Failure::new("palette-6bit-scale", format!("channels scale differently for entry {}", v)));
        }
        if !six_ok(v as u8, map[v]) {
            return Err(Failure::new("palette-6bit-scale", format!("6-bit {} scaled to {}", v, map[v])));
        }
        if v > 0 && map[v] <= map[v - 1] {
            return Err(Failure::new("palette-6bit-scale", format!("6-bit scaling not strictly increasing at {}", v)));
        }
    }
    Ok(Outcome::new(true, 0x6b17).label("six-bit-full-map"))
}

pub fn check(tape: &[u32]) -> CheckResult {
    let mut t = Tape::new(tape);
    let mut s = build_sprite(&mut t, &cfg());
    let plan = build_plan(&mut t);
    // negative cases for indexed sprites
    let mut must_fail: Option<&'static str> = None;
    let has_pixels = s.frames.iter().any(|f| f.cels.iter().any(|c| matches!(&c.content, CelContent::Image { pixels, .. } if !pixels.is_empty()))) || s.tilesets.iter().any(|t| !t.pixels.is_empty());
    if s.fmt == Fmt::Indexed {
        match t.below(6) {
            0 if has_pixels => {
                s.palette = None;
                s.legacy = None;
                s.sprite_user_data = None;
                must_fail = Some("indexed-pixels-without-palette");
            }
            1 => {
                // put an absent index into a cel
                let pal = s.effective_palette().unwrap_or_default();
                let absent: Vec<u8> = (0..=255u8).filter(|i| !pal.contains_key(&(*i as u32))).collect();
                if !absent.is_empty() {
                    // the header's transparent index is the most interesting absent index
                    let a = if absent.contains(&s.transparent) && t.chance(1, 2) { s.transparent } else { absent[t.below(absent.len() as u32) as usize] };
                    'outer: for fr in s.frames.iter_mut() {
                        for c in fr.cels.iter_mut() {
                            if let CelContent::Image { pixels, .. } = &mut c.content {
                                if !pixels.is_empty() {
                                    let k = t.below(pixels.len() as u32) as usize;
                                    pixels[k] = a;
                                    must_fail = Some("cel-pixel-index-absent");
                                    break 'outer;
                                }
                            }
                        }
                    }
                }
            }
            2 => {
                let pal = s.effective_palette().unwrap_or_default();
                let absent: Vec<u8> = (0..=255u8).filter(|i| !pal.contains_key(&(*i as u32))).collect();
                if !absent.is_empty() && !s.tilesets.is_empty() {
                    let a = absent[t.below(absent.len() as u32) as usize];
                    let k = t.below(s.tilesets.len() as u32) as usize;
                    let ts = &mut s.tilesets[k];
                    if !ts.pixels.is_empty() {
                        let j = t.below(ts.pixels.len() as u32) as usize;
                        ts.pixels[j] = a;
                        must_fail = Some("tileset-pixel-index-absent");
                    }
                }
            }
            _ => {}
        }
    }
    let enc = encode(&s, &plan);
    let detail = || json!({"model": super::c01::summarize(&s), "plan": format!("{:?}", plan), "input_hex": if enc.bytes.len() < 8000 { hex(&enc.bytes) } else { String::new() }});
    let r = AsepriteFile::read(&enc.bytes[..]);
    let mut o = Outcome::new(false, hash_bytes(&enc.bytes));
    match (must_fail, r) {
        (Some(why), Ok(_)) => return Err(Failure::new(format!("accepted:{}", why), format!("indexed sprite loaded although: {}", why)).with(detail())),
        (Some(why), Err(_)) => {
            o.nontrivial = true;
            o.labels.push(format!("negative:{}", why));
        }
        (None, Err(e)) => return Err(Failure::new("load-error", format!("well-formed file failed to load: {}", e)).with(detail())),
        (None, Ok(f)) => {
            compare_palette(&s, &f).map_err(|e| e.with(detail()))?;
            // another sprite alive at the same time, whose legacy palette chunk has the same payload bytes but
            // the other kind (0x0004 <-> 0x0011), must decode by its own kind
            if let (Some(l), None) = (&s.legacy, &s.palette) {
                if l.packets.iter().all(|p| p.colors.iter().all(|c| c.iter().all(|v| *v < 64))) {
                    let mut sib = s.clone();
                    sib.legacy.as_mut().unwrap().kind = if l.kind == 0x0004 { 0x0011 } else { 0x0004 };
                    let eb = encode(&sib, &plan);
                    let fb = AsepriteFile::read(&eb.bytes[..]).map_err(|e| Failure::new("load-error", format!("sibling failed to load: {}", e)).with(detail()))?;
                    compare_palette(&sib, &fb).map_err(|mut e| {
                        e.signature = format!("cross-sprite-state:{}", e.signature);
                        e.msg = format!("a sprite loaded while another sprite with byte-identical legacy palette payload of the other kind is alive decodes wrongly: {}", e.msg);
                        e.with(detail())
                    })?;
                    compare_palette(&s, &f).map_err(|e| e.with(detail()))?;
                    o.labels.push("legacy-kind-sibling-alive".into());
                }
            }
            // a file that carries BOTH legacy kinds (no new palette): whichever chunk a reader lets win, it has to be
            // decoded by its own kind's rule
            if let (Some(l), None, true) = (&s.legacy, &s.palette, s.fmt != Fmt::Indexed) {
                if tape.len() % 3 == 0 {
                    let other = if l.kind == 0x0004 { 0x0011 } else { 0x0004 };
                    let n2 = 1 + (tape.len() % 40);
                    let l2 = LegacyPalette { kind: other, packets: vec![LegacyPacket { skip: (tape.len() % 3) as u8, colors: (0..n2).map(|k| { let v = (k * 37 + tape.len()) as u32; if other == 0x0011 { [(v % 64) as u8, ((v / 3) % 64) as u8, ((v / 7) % 64) as u8] } else { [v as u8, (v / 3) as u8, 200] } }).collect() }] };
                    let mut p = super::robust::to_pieces(&enc);
                    let c2 = finish_chunk(legacy_chunk(&l2), 0, &mut Rng(1)).bytes;
                    let mut done = false;
                    for fr in p.frames.iter_mut() {
                        if let Some(pos) = fr.1.iter().position(|ch| ch.len() >= 6 && (ch[4..6] == 0x0004u16.to_le_bytes() || ch[4..6] == 0x0011u16.to_le_bytes())) {
                            // the sprite user data record (if any) stays with the first chunk: put the second one
                            // after the records that follow it
                            let mut at = pos + 1;
                            while at < fr.1.len() && fr.1[at].len() >= 6 && fr.1[at][4..6] == 0x2020u16.to_le_bytes() {
                                at += 1;
                            }
                            fr.1.insert(at, c2.clone());
                            done = true;
                            break;
                        }
                    }
                    if done {
                        let b2 = super::robust::assemble(&p, true);
                        let f2 = AsepriteFile::read(&b2[..]).map_err(|e| Failure::new("load-error", format!("file with both legacy palette kinds failed to load: {}", e)).with(detail()))?;
                        let mut s2 = s.clone();
                        s2.legacy = Some(l2.clone());
                        if compare_palette(&s, &f2).is_err() {
                            compare_palette(&s2, &f2).map_err(|mut e| {
                                e.signature = format!("two-legacy-kinds:{}", e.signature);
                                e.msg = format!("file with a {:#06x} chunk followed by a {:#06x} chunk: the palette is neither chunk decoded by its own kind ({})", l.kind, other, e.msg);
                                e.with(json!({"input_hex": if b2.len() < 8000 { hex(&b2) } else { String::new() }}))
                            })?;
                        }
                        o.labels.push("both-legacy-kinds".into());
                    }
                }
            }
            if let Some(l) = &s.legacy {
                if s.palette.is_none() {
                    o.labels.push(format!("legacy-only-{:#06x}", l.kind));
                    if l.packets.len() >= 2 {
                        o.nontrivial = true;
                        o.labels.push("legacy-multi-packet".into());
                    }
                    if l.packets.iter().any(|p| p.colors.len() == 256) {
                        o.nontrivial = true;
                        o.labels.push("legacy-count-byte-0".into());
                    }
                    if l.packets.iter().skip(1).any(|p| p.skip > 0) {
                        o.labels.push("legacy-later-skip>0".into());
                    }
                } else {
                    o.labels.push("new-beside-legacy".into());
                    o.nontrivial = true;
                }
            }
            if let Some(p) = &s.palette {
                if p.first > 0 {
                    o.nontrivial = true;
                    o.labels.push("first>0".into());
                }
                if p.entries.iter().any(|e| e.name.is_some()) {
                    o.nontrivial = true;
                    o.labels.push("named-entry".into());
                }
                if p.entries.len() > 256 {
                    o.labels.push("entries>256".into());
                }
                if plan.legacy_beside_new && s.legacy.is_none() {
                    o.labels.push("redundant-legacy-chunk".into());
                }
            }
            if s.fmt == Fmt::Indexed {
                o.labels.push("indexed-loads".into());
            }
        }
    }
    o.sample = Some(json!({"palette": s.palette.as_ref().map(|p| json!({"first": p.first, "n": p.entries.len()})), "legacy": s.legacy.as_ref().map(|l| json!({"kind": l.kind, "packets": l.packets.iter().map(|p| (p.skip, p.colors.len())).collect::<Vec<_>>()})), "fmt": format!("{:?}", s.fmt), "must_fail": must_fail}));
    Ok(o)
}

pub fn run(run: &mut Run) {
    run.rule = "cases: sprites (biased to indexed colour) with new palette chunks (first index anywhere in u32, up to 600 entries, names, alpha, junk flag bits), legacy 0x0004/0x0011 chunks with 1-6 packets (skip and count bytes over 0..255, count 0 = 256, every 6-bit value), both chunk orders, legacy-only files; negative cases: indexed sprite with pixels but no palette, a cel pixel index absent from the palette, a tileset pixel index absent. Oracle: model decode written from the format (new chunk: ids first..=last; legacy: opaque entries at cumulative skip + k; 6-bit: 0->0, 63->255, strictly increasing, within 2/255 of v*255/63; new wins); negative cases must fail to load, all others must load. non-trivial: legacy chunk with >= 2 packets or a 256-colour packet, first index > 0, a named entry, new+legacy together, or a negative case; distinct by file hash".into();
    let r = check_guarded(six_bit_map_check);
    run.direct(|| json!({"six_bit_map": true}), r);
    let (lanes, cases) = if run.thorough() { (16, 40000) } else { (16, 5000) };
    run_tapes(run, lanes, cases, 1000, &check);
    // thorough only: coverage-guided search over generator tapes with the same oracle
    crate::fuzzstage::fuzz_tapes(run, 1000, 120);
}

pub fn replay(case: &serde_json::Value) -> CheckResult {
    if case.get("six_bit_map").is_some() {
        return check_guarded(six_bit_map_check);
    }
    let tape = tape_from_case(case).ok_or_else(|| Failure::new("bad-replay", "no tape in replay file"))?;
    check_guarded(|| check(&tape))
}
