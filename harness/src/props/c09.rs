//! C09 — layer parents and visibility follow the nesting levels (exhaustive for small forests).
use crate::encode::{encode, Plan};
use crate::gen::{Tape};
use crate::model::*;
use crate::runner::*;
use asefile::AsepriteFile;
use serde_json::json;

fn forest_sprite(levels: &[u16], vis: &dyn Fn(usize) -> bool, image_parents: bool) -> Sprite {
    let n = levels.len();
    let mut s = Sprite::empty(n.min(65535) as u16, 1, Fmt::Rgba);
    for i in 0..n {
        // image_parents: layers with children stay image layers (the statement defines parents by nesting
        // level alone, not by layer type)
        let is_group = !image_parents && i + 1 < n && levels[i + 1] > levels[i];
        // every third layer also carries a flag bit the format has not assigned (readers must ignore it)
        // the other six defined bits (editable, locked, background, continuous, collapsed, reference) vary
        // per layer; none of them may influence parents or visibility
        let other = (((i * 37 + n * 11 + (levels[i] as usize) * 5) % 64) as u16 * 2) & 0x7E;
        let flags = if vis(i) { LF_VISIBLE } else { 0 } | other | if (i + n) % 3 == 0 { 0x80 << ((i + n) % 9) } else { 0 };
        s.layers.push(Layer { flags, kind: if is_group { LayerKind::Group } else { LayerKind::Image }, level: levels[i], blend: 0, opacity: 255, name: String::new(), user_data: None });
        if !is_group && n <= 4096 {
            s.frames[0].cels.push(Cel { layer: i as u16, x: i as i16, y: 0, opacity: 255, content: CelContent::Image { w: 1, h: 1, pixels: vec![(i % 251) as u8 + 1, 7, 9, 255] }, user_data: None });
        }
    }
    s
}

/// returns (nontrivial, labels)
fn check_forest(levels: &[u16], vis: &dyn Fn(usize) -> bool, sample_only: bool, image_parents: bool) -> Result<(bool, Vec<&'static str>), Failure> {
    let s = forest_sprite(levels, vis, image_parents);
    let mut plan = Plan::plain();
    plan.compress = 0;
    let mut enc = encode(&s, &plan);
    // a third of the forests carry non-zero values in the cels' reserved / z-index bytes: the marks do not overlap,
    // so the expected frame is the same whether a reader ignores those bytes or reorders the cels by them
    let hz = levels.iter().enumerate().fold(levels.len() as u64, |h, (i, l)| crate::encode::mix(h, (*l as u64) << 1 | vis(i) as u64));
    if hz % 3 == 0 {
        crate::encode::junk_zindex(&mut enc, &mut crate::encode::Rng(hz));
    }
    // header flags bit 0 ("layer opacity is valid") and bit 1 ("groups have their own blend mode and opacity", newer
    // format revisions): every layer here is Normal at opacity 255 and the marks are opaque and do not overlap, so
    // a reader that ignores the flags and one that honours them must produce the same frame
    let hf = [1u32, 1, 0, 3, 2][((hz >> 8) % 5) as usize];
    enc.bytes[14..18].copy_from_slice(&hf.to_le_bytes());
    let f = AsepriteFile::read(&enc.bytes[..]).map_err(|e| Failure::new("load-error", format!("forest failed to load: {}", e)))?;
    let n = levels.len();
    let step = if sample_only { (n / 200).max(1) } else { 1 };
    let mut depth2 = false;
    let mut hidden_anc = false;
    let mut sibling_after_nested = false;
    let mut i = 0;
    while i < n {
        let want_parent = s.parent_of(i).map(|p| p as u32);
        let l = f.layer(i as u32);
        let got = l.parent().map(|p| p.id());
        if got != want_parent {
            return Err(Failure::new("parent", format!("layer {} parent {:?}, expected {:?}", i, got, want_parent)));
        }
        if let Some(p) = got {
            if p >= i as u32 {
                return Err(Failure::new("parent-order", format!("layer {} has parent {} with a non-lower id", i, p)));
            }
            // the handle parent() hands out is the parent layer in every respect
            let (ph, direct) = (l.parent().unwrap(), f.layer(p));
            if (ph.flags(), ph.is_visible(), ph.name().to_string(), ph.parent().map(|x| x.id())) != (direct.flags(), direct.is_visible(), direct.name().to_string(), direct.parent().map(|x| x.id())) {
                return Err(Failure::new("parent-handle", format!("layer {}: the handle returned by parent() reports flags {:?} / visible {} / name {:?}, layer({}) reports {:?} / {} / {:?}", i, ph.flags(), ph.is_visible(), ph.name(), p, direct.flags(), direct.is_visible(), direct.name())));
            }
        }
        let want_vis = s.layer_visible(i);
        if l.is_visible() != want_vis {
            return Err(Failure::new("is-visible", format!("layer {} is_visible {} expected {}", i, l.is_visible(), want_vis)));
        }
        if levels[i] >= 2 {
            depth2 = true;
        }
        if vis(i) && !want_vis {
            hidden_anc = true;
        }
        if i > 0 && levels[i] < levels[i - 1] && levels[i] > 0 {
            sibling_after_nested = true;
        }
        // a sampled walk always ends on the last two layers (the deepest of a chain)
        i = if step > 1 && i + step >= n && i + 2 < n { n - 2 } else if step > 1 && i == n - 2 { n - 1 } else { i + step };
    }
    if n <= 4096 {
        let img = f.frame(0).image();
        for i in 0..n {
            if s.layers[i].kind != LayerKind::Image {
                continue;
            }
            let px = img.get_pixel(i as u32, 0).0;
            let want = s.layer_visible(i);
            if (px[3] == 255) != want || (want && px[0] != (i % 251) as u8 + 1) {
                return Err(Failure::new("frame-visibility", format!("frame pixel {} is {:?}; layer visible per model: {}", i, px, want)));
            }
        }
    }
    // stacked variant (small forests): every image layer carries an opaque cel covering the whole 2x1 canvas, so
    // the frame shows the colour of the topmost visible image layer, or nothing - a renderer that culls what lies
    // under an opaque cel has to use the same notion of visibility as is_visible()
    if n <= 64 {
        let mut s2 = s.clone();
        s2.width = 2;
        for c in s2.frames[0].cels.iter_mut() {
            c.x = 0;
            let col = (c.layer as usize % 251) as u8 + 1;
            c.content = CelContent::Image { w: 2, h: 1, pixels: vec![col, 7, 9, 255, col, 7, 9, 255] };
        }
        let enc2 = encode(&s2, &plan);
        let f2 = AsepriteFile::read(&enc2.bytes[..]).map_err(|e| Failure::new("load-error", format!("stacked forest failed to load: {}", e)))?;
        let img = f2.frame(0).image();
        let top = (0..n).rev().find(|i| s.layers[*i].kind == LayerKind::Image && s.layer_visible(*i));
        let want: [u8; 4] = match top {
            Some(i) => [(i % 251) as u8 + 1, 7, 9, 255],
            None => [0, 0, 0, 0],
        };
        for x in 0..2 {
            let px = img.get_pixel(x, 0).0;
            if px != want && !(px[3] == 0 && want[3] == 0) {
                return Err(Failure::new("frame-visibility-stacked", format!("all image layers carry an opaque full-canvas cel; frame pixel {} is {:?}, the topmost visible image layer ({:?}) gives {:?}", x, px, top, want)));
            }
        }
    }
    let mut labels = vec![];
    if depth2 {
        labels.push("depth>=2");
    }
    if hidden_anc {
        labels.push("hidden-ancestor-visible-descendant");
    }
    if sibling_after_nested {
        labels.push("sibling-after-nested-group");
    }
    Ok((depth2 || hidden_anc || sibling_after_nested, labels))
}

fn all_sequences(n: usize) -> Vec<Vec<u16>> {
    let mut out = vec![];
    fn rec(cur: &mut Vec<u16>, n: usize, out: &mut Vec<Vec<u16>>) {
        if cur.len() == n {
            out.push(cur.clone());
            return;
        }
        let max = if cur.is_empty() { 0 } else { cur[cur.len() - 1] + 1 };
        for l in 0..=max {
            cur.push(l);
            rec(cur, n, out);
            cur.pop();
        }
    }
    rec(&mut vec![], n, &mut out);
    out
}

fn random_forest(tape: &[u32]) -> (Vec<u16>, Vec<bool>) {
    let mut t = Tape::new(tape);
    let n = 9 + t.below(392) as usize;
    let mut levels = vec![0u16];
    let style = t.below(3);
    for _ in 1..n {
        let prev = *levels.last().unwrap();
        let l = match style {
            0 => t.below(prev as u32 + 2) as u16,
            1 => {
                if t.chance(3, 4) {
                    prev + 1
                } else {
                    t.below(prev as u32 + 1) as u16
                }
            }
            _ => {
                if t.chance(1, 2) {
                    prev.saturating_sub(t.below(3) as u16)
                } else {
                    prev + 1
                }
            }
        };
        levels.push(l);
    }
    let vis = (0..n).map(|_| !t.chance(1, 5)).collect();
    (levels, vis)
}

fn check_random(tape: &[u32]) -> CheckResult {
    let (levels, vis) = random_forest(tape);
    let (nt, labels) = check_forest(&levels, &|i| vis[i], false, levels.len() % 2 == 1).map_err(|e| e.with(json!({"levels": levels, "visible": vis})))?;
    let mut bytes = vec![];
    for (l, v) in levels.iter().zip(&vis) {
        bytes.extend_from_slice(&l.to_le_bytes());
        bytes.push(*v as u8);
    }
    let mut o = Outcome::new(nt, hash_bytes(&bytes));
    o.labels = labels.into_iter().map(|s| s.to_string()).collect();
    o.labels.push("random-forest".into());
    o.sample = Some(json!({"levels": levels, "visible": vis.iter().map(|b| *b as u8).collect::<Vec<_>>()}));
    Ok(o)
}

/// Whole generated sprites (every cel kind, blend mode, opacity, occluding cels, groups hidden and shown): parents and
/// visibility against the model, and the rendering clause as a metamorphic relation that needs no blend arithmetic -
/// deleting every cel that sits on a layer hidden directly or through an ancestor must leave every frame unchanged.
fn check_sprite_hidden(tape: &[u32]) -> CheckResult {
    let mut t = Tape::new(tape);
    let mut c = crate::gen::GenCfg::full();
    c.canvas_typ = 12;
    c.max_cel = 8;
    c.scale = false;
    let mut s = crate::gen::build_sprite(&mut t, &c);
    // make sure something is hidden through an ancestor: hide a group that has children, now and then
    if t.chance(1, 2) {
        let groups: Vec<usize> = (0..s.layers.len()).filter(|i| i + 1 < s.layers.len() && s.layers[i + 1].level > s.layers[*i].level).collect();
        if !groups.is_empty() {
            let g = groups[t.below(groups.len() as u32) as usize];
            s.layers[g].flags &= !LF_VISIBLE;
        }
    }
    let plan = crate::gen::build_plan(&mut t);
    let enc = encode(&s, &plan);
    let detail = || json!({"model": super::c01::summarize(&s), "input_hex": if enc.bytes.len() < 8000 { hex(&enc.bytes) } else { String::new() }});
    let f = AsepriteFile::read(&enc.bytes[..]).map_err(|e| Failure::new("load-error", format!("well-formed file failed to load: {}", e)).with(detail()))?;
    let mut hidden_by_ancestor = 0;
    for i in 0..s.layers.len() {
        let l = f.layer(i as u32);
        let wantp = s.parent_of(i).map(|p| p as u32);
        if l.parent().map(|p| p.id()) != wantp {
            return Err(Failure::new("parent", format!("layer {} parent {:?}, expected {:?}", i, l.parent().map(|p| p.id()), wantp)).with(detail()));
        }
        if let Some(ph) = l.parent() {
            let direct = f.layer(ph.id());
            if (ph.flags(), ph.is_visible(), ph.name().to_string()) != (direct.flags(), direct.is_visible(), direct.name().to_string()) {
                return Err(Failure::new("parent-handle", format!("layer {}: the handle returned by parent() differs from layer({}) in flags, visibility or name", i, ph.id())).with(detail()));
            }
        }
        if l.is_visible() != s.layer_visible(i) {
            return Err(Failure::new("is-visible", format!("layer {} is_visible {} expected {}", i, l.is_visible(), s.layer_visible(i))).with(detail()));
        }
        if s.layers[i].flags & LF_VISIBLE != 0 && !s.layer_visible(i) {
            hidden_by_ancestor += 1;
        }
    }
    let mut s2 = s.clone();
    let mut removed = 0;
    for fr in s2.frames.iter_mut() {
        let before = fr.cels.len();
        fr.cels.retain(|c| s.layer_visible(c.layer as usize));
        removed += before - fr.cels.len();
    }
    if removed > 0 && s.width as u64 * s.height as u64 <= 1 << 16 {
        let enc2 = encode(&s2, &plan);
        let f2 = AsepriteFile::read(&enc2.bytes[..]).map_err(|e| Failure::new("load-error", format!("sprite without its hidden cels failed to load: {}", e)).with(detail()))?;
        for fi in 0..s.frames.len().min(6) {
            let a = crate::observe::canon(&f.frame(fi as u32).image());
            let b = crate::observe::canon(&f2.frame(fi as u32).image());
            if let Some((x, y, pa, pb)) = a.first_diff(&b) {
                return Err(Failure::new("hidden-layer-contributes", format!("frame {} changes at ({},{}) from {:?} to {:?} when the {} cels on hidden layers are deleted from the file", fi, x, y, pa, pb, removed)).with(detail()));
            }
        }
    }
    let mut o = Outcome::new(removed > 0, hash_bytes(&enc.bytes));
    o.labels.push("whole-sprite".into());
    if hidden_by_ancestor > 0 && removed > 0 {
        o.labels.push("whole-sprite:cels-hidden-through-ancestor".into());
    }
    o.sample = Some(json!({"layers": s.layers.len(), "hidden_cels_removed": removed}));
    Ok(o)
}

pub fn run(run: &mut Run) {
    let nmax = if run.thorough() { 10 } else { 8 };
    run.rule = format!("exhaustive: every level sequence of length 1..={} with level[0]=0 and level[i] <= level[i-1]+1, times every assignment of visible flags; each forest is checked twice: with layers that have children being groups (leaves are image layers owning one opaque 1x1 cel at their own canvas pixel) and with every layer being an image layer with a cel (the statement defines parents by nesting level, not by layer type). Oracle: parent() = nearest preceding layer of smaller level (hence lower id), is_visible() = AND over ancestors, frame pixel i opaque iff leaf i is visible per the model. Plus random forests of 9-400 layers (proptest tapes), chains of depth 1000 / 65535, and whole generated sprites (all cel kinds, blend modes, opacities, occluding cels) for which parents and visibility are compared with the model and every frame must stay unchanged when all cels on layers hidden directly or through an ancestor are deleted from the file. non-trivial: depth >= 2, or a hidden ancestor above a visible descendant, or a sibling following a nested group; distinct by (levels, flags)", nmax);
    run.exhaustive = Some(true);
    // (levels, visible mask, image_parents)
    let mut cases: Vec<(Vec<u16>, u32, bool)> = vec![];
    for n in 1..=nmax {
        for seq in all_sequences(n) {
            let has_parent = seq.iter().any(|l| *l > 0);
            for mask in 0..(1u32 << n) {
                cases.push((seq.clone(), mask, false));
                if has_parent {
                    cases.push((seq.clone(), mask, true));
                }
            }
        }
    }
    let results = par_chunks(
        16,
        cases.len() as u64,
        || (Stats::default(), Vec::<Violation>::new()),
        |acc, i| {
            let (seq, mask, imgp) = &cases[i as usize];
            let r = check_guarded(|| {
                let (nt, labels) = check_forest(seq, &|k| mask & (1 << k) != 0, false, *imgp)?;
                let mut o = Outcome::new(nt, ((seq.iter().fold(seq.len() as u64, |a, b| a * 11 + *b as u64)) << 12) | (*mask as u64) << 1 | *imgp as u64);
                o.labels = labels.into_iter().map(|s| s.to_string()).collect();
                if *imgp {
                    o.labels.push("image-layer-parents".into());
                }
                if nt {
                    o.sample = Some(json!({"levels": seq, "visible_mask": mask, "image_parents": imgp}));
                }
                Ok(o)
            });
            match r {
                Ok(o) => acc.0.record(&o),
                Err(f) => {
                    acc.0.evaluations += 1;
                    if acc.1.len() < 2 {
                        acc.1.push(Violation { case: json!({"levels": seq, "visible_mask": mask, "image_parents": imgp}), failure: f.with(json!({"levels": seq, "visible_mask": mask, "image_parents": imgp})) });
                    }
                }
            }
        },
    );
    for (st, vs) in results {
        run.stats.merge(st);
        for v in vs {
            if run.is_known(&v.failure.signature) {
                continue;
            }
            if !run.violations.iter().any(|x| x.failure.signature == v.failure.signature) {
                run.violations.push(v);
            }
        }
    }
    run.extra.insert("exhaustive_cases".into(), json!(cases.len()));
    // deep chains
    for depth in if run.thorough() { vec![1000usize, 32767, 32768, 32769, 40000, 65535, 65536] } else { vec![1000usize, 32769, 65535, 65536] } {
        let levels: Vec<u16> = (0..depth).map(|i| i as u16).collect();
        for hide in [usize::MAX, 0, 1, depth / 2, depth - 2, depth - 1] {
            let r = check_guarded(|| {
                let (nt, _) = check_forest(&levels, &|i| i != hide, true, false)?;
                Ok(Outcome::new(nt, (depth as u64) << 20 | (hide as u64 & 0xFFFFF)).label("deep-chain"))
            });
            run.direct(|| json!({"chain_depth": depth, "hidden": hide}), r);
        }
    }
    // wide forests: more than 65536 layers (ids beyond 16 bits), groups with children at the far end
    for n in if run.thorough() { vec![65536usize, 65537, 70000, 131075] } else { vec![65537usize, 70000] } {
        let mut levels = vec![0u16; n];
        for k in 0..6 {
            // ... group, child, child, group, child ... at the end of the list
            let i = n - 1 - k;
            levels[i] = if k % 3 == 2 { 0 } else { 1 };
        }
        levels[0] = 0;
        for hide in [usize::MAX, n - 3, n - 6] {
            let r = check_guarded(|| {
                let (nt, _) = check_forest(&levels, &|i| i != hide, false, false)?;
                Ok(Outcome::new(nt, (n as u64) << 24 | (hide as u64 & 0xFFFFFF)).label("wide-forest>65536").with_sample(json!({"layers": n, "hidden": hide, "tail_levels": &levels[n - 6..]})))
            });
            run.direct(|| json!({"wide_layers": n, "hidden": hide}), r);
        }
    }
    let (lanes, n) = if run.thorough() { (16, 3000) } else { (16, 150) };
    run_tapes(run, lanes, n, 900, &check_random);
    let n2 = if run.thorough() { 12000 } else { 1200 };
    run_tapes(run, lanes, n2, 1200, &check_sprite_hidden);
    // thorough only: coverage-guided search over generator tapes with the same oracle
    crate::fuzzstage::fuzz_tapes(run, 900, 120);
}

pub fn replay(case: &serde_json::Value) -> CheckResult {
    if let Some(t) = tape_from_case(case) {
        // a tape is either a random forest or a whole sprite: replay both readings
        check_guarded(|| check_random(&t))?;
        return check_guarded(|| check_sprite_hidden(&t));
    }
    if let Some(n) = case.get("wide_layers").and_then(|d| d.as_u64()) {
        let n = n as usize;
        let hide = case.get("hidden").and_then(|d| d.as_u64()).unwrap_or(u64::MAX) as usize;
        let mut levels = vec![0u16; n];
        for k in 0..6 {
            let i = n - 1 - k;
            levels[i] = if k % 3 == 2 { 0 } else { 1 };
        }
        return check_guarded(|| check_forest(&levels, &|i| i != hide, false, false).map(|_| Outcome::new(true, 0)));
    }
    if let Some(d) = case.get("chain_depth").and_then(|d| d.as_u64()) {
        let hide = case.get("hidden").and_then(|d| d.as_u64()).unwrap_or(u64::MAX) as usize;
        let levels: Vec<u16> = (0..d as usize).map(|i| i as u16).collect();
        return check_guarded(|| check_forest(&levels, &|i| i != hide, true, false).map(|_| Outcome::new(true, 0)));
    }
    let levels: Vec<u16> = case.get("levels").and_then(|l| l.as_array()).map(|a| a.iter().map(|x| x.as_u64().unwrap_or(0) as u16).collect()).ok_or_else(|| Failure::new("bad-replay", "no levels"))?;
    let mask = case.get("visible_mask").and_then(|m| m.as_u64()).unwrap_or(0) as u32;
    let imgp = case.get("image_parents").and_then(|m| m.as_bool()).unwrap_or(false);
    check_guarded(|| check_forest(&levels, &|k| mask & (1 << k) != 0, false, imgp).map(|_| Outcome::new(true, 0)))
}
