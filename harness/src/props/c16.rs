//! C16 — a loaded sprite is an immutable, thread-safe value; results are deterministic.
use crate::encode::{encode, mix, Rng};
use crate::gen::{build_plan, build_sprite, Tape};
use crate::observe::*;
use crate::runner::*;
use asefile::AsepriteFile;
use serde_json::json;
use std::sync::Barrier;

#[derive(Clone, Debug, PartialEq, Eq, Hash)]
pub enum Call {
    Header,
    LayerInfo(u32),
    Duration(u32),
    FrameImage(u32),
    CelInfo(u32, u32),
    CelImage(u32, u32),
    Tilemap(u32, u32),
    TilesetInfo(u32),
    TilesetImage(u32),
    TileImage(u32, u32),
    Palette,
    Tags,
    Slices,
    Ext,
    Debugfmt,
}

fn h(s: &str) -> u64 {
    hash_bytes(s.as_bytes())
}

pub fn eval(f: &AsepriteFile, c: &Call) -> u64 {
    match c {
        Call::Header => h(&format!("{:?}", (f.width(), f.height(), f.size(), f.num_frames(), f.num_layers(), f.pixel_format(), f.is_indexed_color(), f.transparent_color_index(), f.num_tags(), ud(f.sprite_user_data())))),
        Call::LayerInfo(l) => h(&format!("{:?}{:?}", layer_obs(&f.layer(*l)), f.layer_by_name(f.layer(*l).name()).map(|x| x.id()))),
        Call::Duration(fr) => f.frame(*fr).duration() as u64,
        Call::FrameImage(fr) => hash_bytes(f.frame(*fr).image().as_raw()),
        Call::CelInfo(fr, l) => h(&format!("{:?}", cel_obs(&f.cel(*fr, *l), false))),
        Call::CelImage(fr, l) => hash_bytes(f.cel(*fr, *l).image().as_raw()),
        Call::Tilemap(l, fr) => h(&format!("{:?}", tilemap_obs(f, *l, *fr, true))),
        Call::TilesetInfo(id) => h(&format!("{:?}", f.tilesets().get(*id).map(|t| tileset_obs(t, false)))),
        Call::TilesetImage(id) => f.tilesets().get(*id).map_or(0, |t| hash_bytes(t.image().as_raw())),
        Call::TileImage(id, i) => f.tilesets().get(*id).map_or(0, |t| hash_bytes(t.tile_image(*i).as_raw())),
        Call::Palette => h(&format!("{:?}", f.palette().map(|p| palette_ids(p).into_iter().map(|i| p.color(i).map(|e| (e.id(), e.raw_rgba8(), e.name().map(|s| s.to_string())))).collect::<Vec<_>>()))),
        Call::Tags => {
            let n = f.num_tags();
            // lookups by name (first match) are part of the observation
            let by_name: Vec<Option<u32>> = (0..n.min(64)).chain(n.saturating_sub(8)..n).map(|i| f.tag_by_name(f.tag(i).name()).map(|t| t.from_frame() ^ (t.to_frame() << 16))).collect();
            h(&format!("{:?}{:?}{:?}", (0..n).map(|i| tag_obs(f.tag(i))).collect::<Vec<_>>(), by_name, f.tag_by_name("\u{1}absent").is_none()))
        }
        Call::Slices => h(&format!("{:?}", f.slices().iter().map(slice_obs).collect::<Vec<_>>())),
        Call::Ext => {
            let mut v: Vec<(u32, String)> = f.external_files().map().iter().map(|(k, v)| (k.value(), v.name().to_string())).collect();
            v.sort();
            h(&format!("{:?}", v))
        }
        Call::Debugfmt => format!("{:?}", f).len() as u64, // content order of hash maps is arbitrary; the length is not
    }
}

pub fn call_list(f: &AsepriteFile, t: &mut Tape) -> Vec<Call> {
    let mut v = vec![Call::Header, Call::Palette, Call::Tags, Call::Slices, Call::Ext];
    let (nf, nl) = (f.num_frames().min(6), f.num_layers().min(8));
    let small = f.width() * f.height() <= 1 << 16;
    for l in 0..nl {
        v.push(Call::LayerInfo(l));
    }
    for fr in 0..nf {
        v.push(Call::Duration(fr));
        if small {
            v.push(Call::FrameImage(fr));
        }
        for l in 0..nl {
            v.push(Call::CelInfo(fr, l));
            if small && t.chance(2, 3) {
                v.push(Call::CelImage(fr, l));
            }
            if small && f.layer(l).is_tilemap() {
                v.push(Call::Tilemap(l, fr));
            }
        }
    }
    let mut ids: Vec<(u32, u32, u64)> = f.tilesets().iter().map(|t| (t.id(), t.tile_count(), t.tile_count() as u64 * t.tile_size().width() as u64 * t.tile_size().height() as u64)).collect();
    ids.sort();
    for (id, n, px) in ids {
        v.push(Call::TilesetInfo(id));
        if px <= 1 << 16 {
            v.push(Call::TilesetImage(id));
            if n > 0 {
                v.push(Call::TileImage(id, t.below(n)));
            }
        }
    }
    if small {
        v.push(Call::Debugfmt);
    }
    v
}

fn permutation(n: usize, seed: u64) -> Vec<usize> {
    let mut p: Vec<usize> = (0..n).collect();
    let mut r = Rng(seed);
    for i in (1..n).rev() {
        p.swap(i, r.below(i as u64 + 1) as usize);
    }
    p
}

pub struct Case {
    pub bytes: Vec<u8>,
    pub hostile: bool,
    /// the generating model (well-formed cases only)
    pub model: Option<crate::model::Sprite>,
    /// a sibling sprite: same pixels, palette colours and structure, but different names everywhere
    pub sibling: Option<(crate::model::Sprite, Vec<u8>)>,
    /// same structure and shapes, other pixel values (encoded with the same plan)
    pub variant: Option<Vec<u8>>,
}

pub fn build_bytes(t: &mut Tape) -> (Vec<u8>, bool) {
    let c = build_case(t);
    (c.bytes, c.hostile)
}

pub fn rename(s: &crate::model::Sprite) -> crate::model::Sprite {
    let mut a = s.clone();
    for (i, l) in a.layers.iter_mut().enumerate() {
        l.name = format!("sib-{}-{}", i, l.name.chars().rev().take(8).collect::<String>());
    }
    if let Some(p) = &mut a.palette {
        for (i, e) in p.entries.iter_mut().enumerate() {
            e.name = match (&e.name, i % 3) {
                (Some(_), 0) => None,
                (Some(n), _) => Some(format!("{}'", n.chars().take(6).collect::<String>())),
                (None, 1) => Some(format!("n{}", i)),
                (None, _) => None,
            };
        }
    }
    if let Some(tags) = &mut a.tags {
        for (i, tg) in tags.iter_mut().enumerate() {
            tg.name = format!("sibtag{}", i);
        }
    }
    for (i, sl) in a.slices.iter_mut().enumerate() {
        sl.name = format!("sibslice{}", i);
    }
    for ts in a.tilesets.iter_mut() {
        ts.name = format!("sib{}", ts.name.len());
    }
    for e in a.ext_files.iter_mut() {
        e.name = format!("sib{}", e.name.len());
    }
    a
}

/// same structure, sizes and offsets; other pixel values (RGBA/gray: complemented colour bytes; indexed:
/// pixel order reversed, so every index stays valid)
fn repaint(s: &crate::model::Sprite) -> crate::model::Sprite {
    use crate::model::*;
    let mut a = s.clone();
    let paint = |px: &mut Vec<u8>, fmt: Fmt| match fmt {
        Fmt::Rgba => {
            for c in px.chunks_exact_mut(4) {
                c[0] = !c[0];
                c[1] = !c[1];
                c[2] = !c[2];
            }
        }
        Fmt::Gray => {
            for c in px.chunks_exact_mut(2) {
                c[0] = !c[0];
            }
        }
        Fmt::Indexed => px.reverse(),
    };
    for fr in a.frames.iter_mut() {
        for c in fr.cels.iter_mut() {
            if let CelContent::Image { pixels, .. } = &mut c.content {
                paint(pixels, s.fmt);
            }
        }
    }
    for ts in a.tilesets.iter_mut() {
        paint(&mut ts.pixels, s.fmt);
    }
    a
}

pub fn build_case(t: &mut Tape) -> Case {
    if t.chance(1, 8) {
        // a tilemap layer whose tileset id matches none of >= 2 tilesets (must be rejected; if it is
        // accepted, the binding must at least not depend on hash-map order)
        let mut c = super::c08::cfg();
        c.canvas_typ = 12;
        c.max_tile = 4;
        let mut s = build_sprite(t, &c);
        if s.tilesets.len() >= 2 {
            let mut k = 0u32;
            for l in s.layers.iter_mut() {
                if let crate::model::LayerKind::Tilemap { tileset } = &mut l.kind {
                    // small ids that name no tileset (also exercises "index instead of id" readings)
                    let mut cand = k;
                    while s.tilesets.iter().any(|x| x.id == cand) {
                        cand += 1;
                    }
                    *tileset = cand;
                    k += 1;
                }
            }
        }
        let plan = build_plan(t);
        return Case { bytes: encode(&s, &plan).bytes, hostile: true, model: None, sibling: None, variant: None };
    }
    if t.chance(1, 24) {
        // a busy frame: 16..30 visible, overlapping, canvas-sized cels on a canvas of 128..160 pixels
        use crate::model::*;
        let fmt = t.pick(&[Fmt::Rgba, Fmt::Gray, Fmt::Indexed]);
        let (w, h) = (128 + t.below(33) as u16, 128 + t.below(33) as u16);
        let mut s = Sprite::empty(w, h, fmt);
        if fmt == Fmt::Indexed {
            let mut r = Rng(t.raw64());
            s.palette = Some(NewPalette { first: 0, entries: (0..64).map(|_| { let v = r.next(); PalEntry { rgba: [v as u8, (v >> 8) as u8, (v >> 16) as u8, [255u8, 255, 128, 40][(v >> 24) as usize % 4]], name: None } }).collect() });
        }
        let nl = 16 + t.below(15) as usize;
        for i in 0..nl {
            s.layers.push(Layer { flags: 3, kind: LayerKind::Image, level: 0, blend: if t.chance(1, 2) { 0 } else { t.below(19) as u16 }, opacity: t.u8_biased().max(20), name: format!("busy{}", i), user_data: None });
            let mut r = Rng(t.raw64());
            let n = w as usize * h as usize;
            let pixels: Vec<u8> = match fmt {
                Fmt::Rgba => (0..n).flat_map(|k| { let v = r.next(); [v as u8, (v >> 8) as u8, (v >> 16) as u8, if k % 3 == 0 { 255 } else { (v >> 24) as u8 }] }).collect(),
                Fmt::Gray => (0..n).flat_map(|_| { let v = r.next(); [v as u8, (v >> 8) as u8] }).collect(),
                Fmt::Indexed => (0..n).map(|_| (r.next() % 64) as u8).collect(),
            };
            s.frames[0].cels.push(Cel { layer: i as u16, x: -(t.below(3) as i16), y: -(t.below(3) as i16), opacity: t.u8_biased().max(20), content: CelContent::Image { w, h, pixels }, user_data: None });
        }
        let mut plan = build_plan(t);
        plan.zlevel = 1;
        return Case { bytes: encode(&s, &plan).bytes, hostile: false, model: None, sibling: None, variant: None };
    }
    if t.chance(1, 3) {
        // accepted-corrupted candidates
        let rest: Vec<u32> = (0..600).map(|_| t.raw()).collect();
        let b = super::robust::build_hostile(&rest);
        Case { bytes: b.bytes, hostile: true, model: None, sibling: None, variant: None }
    } else {
        let mut cfg = super::c07::cfg();
        if t.chance(1, 3) {
            // larger cels (more than 256 pixels each)
            cfg.max_cel = 40;
            cfg.canvas_typ = 40;
        }
        let mut s = build_sprite(t, &cfg);
        // extreme canvas on one axis (arithmetic near the 16-bit limit), the other axis tiny
        match t.below(12) {
            0 => {
                s.width = t.pick(&[65535u16, 65534, 65530, 40000, 32769]);
                s.height = 1 + t.below(3) as u16;
            }
            1 => {
                s.height = t.pick(&[65535u16, 65534, 65530, 40000, 32769]);
                s.width = 1 + t.below(3) as u16;
            }
            _ => {}
        }
        if t.chance(1, 8) {
            // thousands of tags: anything built lazily on first use takes long enough to be raced
            let tags = s.tags.get_or_insert_with(Vec::new);
            let n = 3000 + t.below(3000) as usize;
            while tags.len() < n {
                let i = tags.len();
                tags.push(crate::model::Tag { from: i as u16, to: (i / 2) as u16, dir: (i % 3) as u8, repeat: 0, name: format!("tag-{}", i % 1500) });
            }
        }
        let plan = build_plan(t);
        let sib = rename(&s);
        let sib_bytes = encode(&sib, &plan).bytes;
        let var = repaint(&s);
        let var_bytes = encode(&var, &plan).bytes;
        Case { bytes: encode(&s, &plan).bytes, hostile: false, model: Some(s), sibling: Some((sib, sib_bytes)), variant: Some(var_bytes) }
    }
}

pub fn check(tape: &[u32]) -> CheckResult {
    let mut t = Tape::new(tape);
    let case = build_case(&mut t);
    let (bytes, hostile) = (case.bytes.clone(), case.hostile);
    let f = match AsepriteFile::read(&bytes[..]) {
        Ok(f) => f,
        Err(_) if hostile => return Ok(Outcome::new(false, hash_bytes(&bytes)).label("hostile-rejected")),
        Err(e) => return Err(Failure::new("load-error", format!("well-formed file failed to load: {}", e))),
    };
    if f.width() * f.height() > 1 << 18 {
        return Ok(Outcome::new(false, hash_bytes(&bytes)).label("skipped-large-canvas"));
    }
    let detail = |w: serde_json::Value| json!({"input_hex": if bytes.len() < 8000 { hex(&bytes) } else { String::new() }, "what": w});
    let calls = call_list(&f, &mut t);
    let n = calls.len();
    let base: Vec<u64> = calls.iter().map(|c| eval(&f, c)).collect();
    // permuted order
    let perm = permutation(n, t.raw64());
    let mut r2 = vec![0u64; n];
    for &i in &perm {
        r2[i] = eval(&f, &calls[i]);
    }
    // second pass in order
    let r3: Vec<u64> = calls.iter().map(|c| eval(&f, c)).collect();
    for i in 0..n {
        if base[i] != r2[i] || base[i] != r3[i] {
            return Err(Failure::new("order-dependent", format!("call {:?} returned different results depending on call order/repetition", calls[i])).with(detail(json!({"call": format!("{:?}", calls[i])}))));
        }
    }
    // long history: the cheap (non-rendering) calls repeated many times must keep returning the same
    // values (catches state that only changes after a warm-up period)
    {
        let many_tags = f.num_tags() > 100;
        let cheap: Vec<usize> = (0..n).filter(|i| !matches!(calls[*i], Call::FrameImage(_) | Call::CelImage(..) | Call::Tilemap(..) | Call::TilesetImage(_) | Call::TileImage(..) | Call::Debugfmt | Call::Palette) && !(many_tags && matches!(calls[*i], Call::Tags))).collect();
        let rounds = 12000 / cheap.len().max(1) + 1;
        for round in 0..rounds {
            for &i in &cheap {
                if eval(&f, &calls[i]) != base[i] {
                    return Err(Failure::new("history-dependent", format!("call {:?} changed its result after {} repetitions of the call list", calls[i], round)).with(detail(json!({"call": format!("{:?}", calls[i]), "round": round}))));
                }
            }
        }
    }
    // concurrent
    let threads = 2 + t.below(15) as usize;
    let seeds: Vec<u64> = (0..threads).map(|_| t.raw64()).collect();
    let barrier = Barrier::new(threads);
    let mut bad: Option<Call> = None;
    std::thread::scope(|sc| {
        let hs: Vec<_> = seeds
            .iter()
            .map(|sd| {
                let (f, calls, base, barrier) = (&f, &calls, &base, &barrier);
                sc.spawn(move || {
                    let p = permutation(calls.len(), *sd);
                    barrier.wait();
                    for &i in &p {
                        if eval(f, &calls[i]) != base[i] {
                            return Some(calls[i].clone());
                        }
                    }
                    None
                })
            })
            .collect();
        for hd in hs {
            if let Ok(Some(c)) = hd.join() {
                bad = Some(c);
            }
        }
    });
    if bad.is_none() {
        // the same again on a FRESH load that no thread has touched yet: the threads race to be the first caller
        let f3 = AsepriteFile::read(&bytes[..]).map_err(|e| Failure::new("reload-fails", format!("reload failed: {}", e)))?;
        let barrier = Barrier::new(threads);
        std::thread::scope(|sc| {
            let hs: Vec<_> = seeds
                .iter()
                .map(|sd| {
                    let (f3, calls, base, barrier) = (&f3, &calls, &base, &barrier);
                    sc.spawn(move || {
                        // cheap calls first (they are the ones whose first use is quick enough to overlap)
                        let mut p = permutation(calls.len(), sd.rotate_left(7));
                        p.sort_by_key(|i| !matches!(calls[*i], Call::Tags | Call::Header | Call::LayerInfo(_) | Call::Palette | Call::Slices | Call::Ext));
                        barrier.wait();
                        for &i in &p {
                            if matches!(calls[i], Call::Debugfmt) {
                                continue;
                            }
                            if eval(f3, &calls[i]) != base[i] {
                                return Some(calls[i].clone());
                            }
                        }
                        None
                    })
                })
                .collect();
            for hd in hs {
                if let Ok(Some(c)) = hd.join() {
                    bad = Some(c);
                }
            }
        });
        if let Some(c) = &bad {
            return Err(Failure::new("thread-dependent-first-use", format!("call {:?} returned a different result when {} threads raced to be the first users of a freshly loaded sprite", c, threads)).with(detail(json!({"threads": threads}))));
        }
    }
    if let Some(c) = bad {
        return Err(Failure::new("thread-dependent", format!("call {:?} returned a different result when run concurrently from {} threads", c, threads)).with(detail(json!({"threads": threads}))));
    }
    // two loads of the same bytes
    let f2 = AsepriteFile::read(&bytes[..]).map_err(|e| Failure::new("reload-fails", format!("second load of the same bytes failed: {}", e)).with(detail(json!(null))))?;
    // the second load is first used in a *different* call order (a lazily built cache must not bake in
    // whatever the first caller happened to need)
    let perm2 = permutation(n, t.raw64());
    for &i in perm2.iter().rev() {
        if eval(&f2, &calls[i]) != base[i] {
            return Err(Failure::new("order-dependent-across-loads", format!("call {:?} on a second load of the same bytes, used in a different call order, returned a different result", calls[i])).with(detail(json!({"call": format!("{:?}", calls[i])}))));
        }
    }
    let (o1, o2) = (observe(&f, true), observe(&f2, true));
    if o1 != o2 {
        return Err(Failure::new("reload-differs", format!("two loads of the same bytes differ: {}", super::c07::diff_obs(&o1, &o2))).with(detail(json!(null))));
    }
    // a different sprite alive at the same time must not influence this one (and vice versa): load a
    // sibling with the same colours and structure but different names, then this sprite again
    if let (Some(m), Some((sm, sb))) = (&case.model, &case.sibling) {
        let fa = AsepriteFile::read(&sb[..]).map_err(|e| Failure::new("load-error", format!("sibling sprite failed to load: {}", e)))?;
        super::c01::compare_structure(sm, &fa).map_err(|e| Failure::new(format!("cross-sprite-state:{}", e.signature), format!("a sprite loaded while another sprite (same colours, different names) was alive reports the other's data: {}", e.msg)).with(detail(json!({"sibling_hex": if sb.len() < 8000 { hex(sb) } else { String::new() }}))))?;
        let fb = AsepriteFile::read(&bytes[..]).map_err(|e| Failure::new("reload-fails", format!("third load failed: {}", e)))?;
        super::c01::compare_structure(m, &fb).map_err(|e| Failure::new(format!("cross-sprite-state:{}", e.signature), format!("reloading a sprite while a sibling is alive changes what it reports: {}", e.msg)).with(detail(json!({"sibling_hex": if sb.len() < 8000 { hex(sb) } else { String::new() }}))))?;
        super::c01::compare_structure(m, &f).map_err(|e| Failure::new(format!("cross-sprite-state:{}", e.signature), format!("an already loaded sprite changed after a sibling was loaded: {}", e.msg)).with(detail(json!(null))))?;
        drop(fa);
    }
    // history of loads on one thread: drop everything, then load a variant with the same shapes but other
    // pixels on THIS thread (which has just rendered the original) and, as the reference, on a brand-new
    // thread (no thread-local state, other heap addresses); both must observe the same
    if let Some(vb) = &case.variant {
        drop(f2);
        drop(f);
        let here = match AsepriteFile::read(&vb[..]) {
            Ok(fv) => Some(observe(&fv, true)),
            Err(_) => None,
        };
        let vb2 = vb.clone();
        let fresh = std::thread::spawn(move || match AsepriteFile::read(&vb2[..]) {
            Ok(fv) => Some(observe(&fv, true)),
            Err(_) => None,
        })
        .join()
        .map_err(|_| Failure::new("panic:variant-thread", "observing the variant on a fresh thread panicked"))?;
        match (&here, &fresh) {
            (Some(a), Some(b)) if a != b => {
                return Err(Failure::new("load-history-dependent", format!("a sprite loaded on a thread that had just loaded and rendered another sprite of the same shape is observed differently than on a fresh thread: {}", super::c07::diff_obs(a, b))).with(json!({"first_hex": if bytes.len() < 6000 { hex(&bytes) } else { String::new() }, "second_hex": if vb.len() < 6000 { hex(vb) } else { String::new() }})));
            }
            (Some(_), None) | (None, Some(_)) => return Err(Failure::new("load-history-dependent", "a sprite loads on one thread but not on another")),
            _ => {}
        }
        let distinct: std::collections::HashSet<&Call> = calls.iter().collect();
        let has_img = calls.iter().any(|c| matches!(c, Call::FrameImage(_) | Call::CelImage(..) | Call::TilesetImage(_) | Call::Tilemap(..)));
        let mut o = Outcome::new(distinct.len() >= 8 && has_img && threads >= 2, hash_bytes(&bytes) ^ mix(perm.len() as u64, threads as u64));
        o.labels.push(format!("threads-{}", if threads <= 4 { "2-4" } else if threads <= 8 { "5-8" } else { "9-16" }));
        o.labels.push("variant-after-drop".into());
        o.counters.push(("api_calls_compared", (n * (4 + 2 * threads)) as u64));
        o.sample = Some(json!({"file_bytes": bytes.len(), "calls": n, "threads": threads, "first_calls": calls.iter().take(8).map(|c| format!("{:?}", c)).collect::<Vec<_>>()}));
        return Ok(o);
    }
    let distinct: std::collections::HashSet<&Call> = calls.iter().collect();
    let has_img = calls.iter().any(|c| matches!(c, Call::FrameImage(_) | Call::CelImage(..) | Call::TilesetImage(_) | Call::Tilemap(..)));
    let mut o = Outcome::new(distinct.len() >= 8 && has_img && threads >= 2, hash_bytes(&bytes) ^ mix(perm.len() as u64, threads as u64));
    o.labels.push(format!("threads-{}", if threads <= 4 { "2-4" } else if threads <= 8 { "5-8" } else { "9-16" }));
    if hostile {
        o.labels.push("accepted-corrupted".into());
    }
    o.counters.push(("api_calls_compared", (n * (3 + threads)) as u64));
    o.sample = Some(json!({"file_bytes": bytes.len(), "calls": n, "threads": threads, "first_calls": calls.iter().take(8).map(|c| format!("{:?}", c)).collect::<Vec<_>>()}));
    Ok(o)
}

/// What a PaletteMapper built from the file's palette answers for every palette colour (feature `utils`); "-" when
/// the feature is off or the file has no palette. With duplicate colours any matching index is a correct answer, but
/// the same bytes must give the same answers in every load, build and process.
#[cfg(feature = "utils")]
pub fn mapper_digest(f: &AsepriteFile) -> String {
    use asefile::util::{MappingOptions, PaletteMapper};
    match f.palette() {
        None => "-".into(),
        Some(p) => {
            let m = PaletteMapper::new(p, MappingOptions { failure: 0, transparent: None });
            let mut v = vec![];
            for id in 0..p.num_colors().min(1024) + 300 {
                if let Some(e) = p.color(id) {
                    v.push(m.lookup(e.red(), e.green(), e.blue(), 255));
                }
            }
            format!("{:016x}", h(&format!("{:?}", v)))
        }
    }
}
#[cfg(not(feature = "utils"))]
pub fn mapper_digest(_f: &AsepriteFile) -> String {
    "-".into()
}

/// Digest of the observation of one seeded case (for the cross-profile differential).
pub fn digest_case(seed: u64, i: u64) -> String {
    let mut r = Rng(mix(seed, i));
    let tape: Vec<u32> = (0..1200).map(|_| r.next() as u32).collect();
    let mut t = Tape::new(&tape);
    let (bytes, _) = build_bytes(&mut t);
    // one case in 25 is a tilemap whose pixel extent or tile count passes 65535 (8192-pixel tiles in a row of 9-12,
    // or a 256-300 tile square of one-pixel tiles), one in 25 a layer list whose child levels jump to 65535 and back:
    // arithmetic on 16-bit fields must not depend on the build
    let bytes = if i % 25 == 9 { extent_case(&mut r) } else if i % 25 == 17 { level_jump_case(&mut r) } else { bytes };
    // every fifth case carries chunks of the ignored types whose body is odd (empty, short, random): whether they
    // are looked at must not depend on the process (for instance on whether a logger is installed)
    let mut bytes = if i % 5 == 2 { insert_odd_ignorable(&bytes, &mut r) } else { bytes };
    // every fifth case carries non-zero values (small and extreme) in the reserved / z-index bytes of its cel chunks:
    // whatever a reader makes of them, every build has to make the same of them
    if i % 5 == 3 {
        let sc = crate::scan::scan(&bytes);
        for c in &sc.chunks {
            if c.ctype == 0x2005 && c.end - c.start >= 6 + 16 && r.chance8(5) {
                let v: i16 = [32767i16, -32768, 32766, 32765, -2, 2, -1, 1][r.below(8) as usize];
                bytes[c.start + 6 + 9..c.start + 6 + 11].copy_from_slice(&v.to_le_bytes());
            }
        }
    }
    let r = guarded(|| match AsepriteFile::read(&bytes[..]) {
        // a refused file: only the refusal is compared. Which of several defects of a file is reported (and with
        // what text) may depend on hash-map iteration order, i.e. on the process; C16 quantifies over loadable files
        Err(_) => "err".to_string(),
        Ok(f) => {
            if f.width() * f.height() > 1 << 18 {
                return "skipped-large".to_string();
            }
            let o = observe(&f, true);
            let mut extra = vec![];
            for fr in 0..f.num_frames().min(4) {
                for l in 0..f.num_layers().min(8) {
                    if let Some(tm) = f.tilemap(l, fr) {
                        for (x, y) in [(0x8000_0000u32, 0u32), (0, 0x8000_0000), (0xFFFF_FFFF, 0xFFFF_FFFF), (0x7FFF_FFFF, 1), (65536, 65536)] {
                            extra.push(tm.tile(x, y).id());
                        }
                    }
                }
            }
            format!("ok:{:016x}:{:016x}:{}", h(&format!("{:?}", o)), h(&format!("{:?}", extra)), mapper_digest(&f))
        }
    });
    match r {
        Ok(s) => s,
        Err((loc, msg)) => format!("panic:{}:{}", short_loc(&loc), msg.chars().take(60).collect::<String>()),
    }
}

fn level_jump_case(r: &mut Rng) -> Vec<u8> {
    use crate::model::*;
    let mut s = Sprite::empty(3, 2, Fmt::Rgba);
    let hi = [65535u16, 65534, 32768, 65535][r.below(4) as usize];
    let levels: Vec<(u16, bool)> = match r.below(3) {
        0 => vec![(0, true), (hi, false), (1, true), (hi, false), (2, false), (0, false)],
        1 => vec![(0, true), (1, true), (hi, true), (hi, false), (2, false), (1, false), (hi, false)],
        _ => vec![(0, false), (0, true), (hi, false), (hi, false), (1, false)],
    };
    for (k, (level, group)) in levels.iter().enumerate() {
        let flags = if r.below(4) == 0 { 0 } else { 1 };
        s.layers.push(Layer { flags, kind: if *group { LayerKind::Group } else { LayerKind::Image }, level: *level, blend: 0, opacity: 255, name: format!("l{}", k), user_data: None });
        if !*group {
            s.frames[0].cels.push(Cel { layer: k as u16, x: (k % 3) as i16, y: (k / 3 % 2) as i16, opacity: 255, content: CelContent::Image { w: 1, h: 1, pixels: vec![k as u8 * 30 + 1, r.next() as u8, 7, 255] }, user_data: None });
        }
    }
    crate::encode::encode(&s, &crate::encode::Plan::plain()).bytes
}

fn extent_case(r: &mut Rng) -> Vec<u8> {
    use crate::model::*;
    let wide = r.below(2) == 0;
    let (mw, mh, tw, th, count) = if wide {
        let n = 9 + r.below(4) as u16;
        if r.below(2) == 0 { (n, 1u16, 8192u16, 1u16, 3u32) } else { (1, n, 1, 8192, 3) }
    } else {
        (256 + r.below(45) as u16, 256 + r.below(45) as u16, 1, 1, 200)
    };
    let (cw, ch) = if !wide { (mw, mh) } else if tw > 1 { (65535, 1) } else { (1, 65535) };
    let mut s = Sprite::empty(cw, ch, Fmt::Rgba);
    let tile_px = tw as usize * th as usize;
    let px: Vec<u8> = (0..count as usize * tile_px * 4).map(|k| if k < 4 * tile_px { 0 } else if k % 4 == 3 { 255 } else { r.next() as u8 }).collect();
    s.tilesets.push(Tileset { id: 3, flags: 2, count, tw, th, base_index: 1, name: String::new(), ext: (0, 0), pixels: px });
    s.layers.push(Layer { flags: 1, kind: LayerKind::Tilemap { tileset: 3 }, level: 0, blend: 0, opacity: 255, name: "extent".into(), user_data: None });
    let tiles: Vec<u32> = (0..mw as usize * mh as usize).map(|_| (r.next() % count as u64) as u32).collect();
    let back = if wide { (-8192i32 * r.below(5) as i32) as i16 } else { 0 };
    let (x, y) = if tw > 1 { (back, 0) } else { (0, back) };
    s.frames[0].cels.push(Cel { layer: 0, x, y, opacity: 255, content: CelContent::Tilemap { w: mw, h: mh, bits: 32, masks: [0x1fffffff, 0x20000000, 0x40000000, 0x80000000], tiles }, user_data: None });
    crate::encode::encode(&s, &crate::encode::Plan::plain()).bytes
}

/// Insert chunks of the ignored types (cel extra 0x2006, mask 0x2016, path 0x2017) with arbitrary bodies at
/// random positions; counts and sizes are fixed up. Returns the input unchanged when its framing is not regular.
pub fn insert_odd_ignorable(bytes: &[u8], r: &mut Rng) -> Vec<u8> {
    let u16at = |o: usize| u16::from_le_bytes([bytes[o], bytes[o + 1]]) as usize;
    let u32at = |o: usize| u32::from_le_bytes([bytes[o], bytes[o + 1], bytes[o + 2], bytes[o + 3]]) as usize;
    if bytes.len() < 128 + 16 {
        return bytes.to_vec();
    }
    let nframes = u16at(6);
    let mut out = bytes[..128].to_vec();
    let mut pos = 128;
    for _ in 0..nframes {
        if pos + 16 > bytes.len() {
            return bytes.to_vec();
        }
        let fsz = u32at(pos);
        let (old, new) = (u16at(pos + 6), u32at(pos + 12));
        let n = if new != 0 { new } else { old };
        if fsz < 16 || pos + fsz > bytes.len() || n > 5000 {
            return bytes.to_vec();
        }
        let mut chunks: Vec<Vec<u8>> = vec![];
        let mut p = pos + 16;
        for _ in 0..n {
            if p + 6 > pos + fsz {
                return bytes.to_vec();
            }
            let csz = u32at(p);
            if csz < 6 || p + csz > pos + fsz {
                return bytes.to_vec();
            }
            chunks.push(bytes[p..p + csz].to_vec());
            p += csz;
        }
        if p != pos + fsz {
            return bytes.to_vec();
        }
        for _ in 0..1 + r.below(3) {
            let ty = [0x2006u16, 0x2006, 0x2016, 0x2017][r.below(4) as usize];
            let blen = [0usize, 0, 1, 3, 4, 19, 35, 36, 40][r.below(9) as usize];
            let mut c = vec![];
            c.extend_from_slice(&((6 + blen) as u32).to_le_bytes());
            c.extend_from_slice(&ty.to_le_bytes());
            c.extend((0..blen).map(|_| r.next() as u8));
            let at = r.below(chunks.len() as u64 + 1) as usize;
            chunks.insert(at, c);
        }
        let mut hdr = bytes[pos..pos + 16].to_vec();
        let body: usize = chunks.iter().map(|c| c.len()).sum();
        hdr[0..4].copy_from_slice(&((16 + body) as u32).to_le_bytes());
        let cnt = chunks.len();
        hdr[6..8].copy_from_slice(&(if cnt < 0xFFFF { cnt as u16 } else { 0xFFFF }).to_le_bytes());
        hdr[12..16].copy_from_slice(&(if new != 0 || cnt >= 0xFFFF { cnt as u32 } else { 0 }).to_le_bytes());
        out.extend(hdr);
        for c in chunks {
            out.extend(c);
        }
        pos += fsz;
    }
    out.extend_from_slice(&bytes[pos..]);
    let total = out.len() as u32;
    if u32at(0) == bytes.len() {
        out[0..4].copy_from_slice(&total.to_le_bytes());
    }
    out
}

/// Runs in a fresh process (`vcheck --first-use observe <seed> <i>`): 16 threads leave a barrier together and each
/// loads and observes the same file; whatever the library sets up on first use is set up under contention.
pub fn first_use_main(seed: u64, i: u64) -> ! {
    let barrier = std::sync::Arc::new(std::sync::Barrier::new(16));
    let hs: Vec<_> = (0..16)
        .map(|_| {
            let barrier = barrier.clone();
            std::thread::Builder::new()
                .stack_size(8 << 20)
                .spawn(move || {
                    barrier.wait();
                    digest_case(seed, i)
                })
                .unwrap()
        })
        .collect();
    let ds: Vec<String> = hs.into_iter().map(|h| h.join().unwrap_or_else(|_| "thread-panicked".into())).collect();
    println!("{}", json!({"digests": ds}));
    std::process::exit(0)
}

fn run_first_use(run: &mut Run) {
    let exe = std::env::current_exe().expect("own executable path");
    let n = if run.thorough() { 400 } else { 40 };
    let seed = mix(run.seed, 0xF125);
    let mut loaded = 0u64;
    for i in 0..n {
        let want = digest_case(seed, i);
        if want == "skipped-large" {
            continue;
        }
        let out = std::process::Command::new(&exe).arg("--first-use").arg("observe").arg(seed.to_string()).arg(i.to_string()).output().expect("spawn vcheck --first-use");
        let line = String::from_utf8_lossy(&out.stdout).lines().last().unwrap_or("").to_string();
        let case = || json!({"first_use_case": i, "digest_seed": seed});
        let res = match serde_json::from_str::<serde_json::Value>(&line) {
            Ok(v) => {
                let ds: Vec<String> = v["digests"].as_array().map(|a| a.iter().map(|x| x.as_str().unwrap_or("").to_string()).collect()).unwrap_or_default();
                let bad = ds.iter().filter(|d| **d != want).count();
                if bad == 0 && ds.len() == 16 {
                    if want.starts_with("ok:") {
                        loaded += 1;
                    }
                    Ok(Outcome::new(want.starts_with("ok:"), mix(seed, i)).label("first-use-under-contention"))
                } else {
                    Err(Failure::new("first-use-dependent", format!("a file loaded and observed by 16 threads at once as the first thing a process does gives another result than loaded alone: alone = {:?}, {} of 16 threads differ, e.g. {:?}", want, bad, ds.iter().find(|d| **d != want))))
                }
            }
            Err(_) => Err(Failure::new("first-use:process-died", format!("process died while 16 threads loaded the same file as its first action: status {:?}, stderr {}", out.status, String::from_utf8_lossy(&out.stderr).chars().take(300).collect::<String>()))),
        };
        run.direct(case, res);
    }
    run.extra.insert("first_use_cases_loaded".into(), json!(loaded));
}

/// Blend probes for the build differential: for every blend mode a few of C03's probe sprites (channel-exhaustive
/// squares for the separable modes, colour-grid blocks for the HSL modes, one random sprite each), rendered and
/// hashed. Whatever the arithmetic is, every build has to produce the same pixels.
pub const BLEND_PROBES: u64 = 19 * 4;
pub fn digest_probe(k: u64, seed: u64) -> String {
    use super::c03::{render, spec_channel, spec_hsl, spec_random, HSL_VALS_QUICK};
    let (mode, var) = ((k / 4) as u16, k % 4);
    let hsl = (15..19).contains(&mode);
    let spec = match var {
        0 if hsl => spec_hsl(mode, &HSL_VALS_QUICK[..], 0, 255, 255, 255, 255),
        1 if hsl => spec_hsl(mode, &HSL_VALS_QUICK[..], 2, 200, 255, 255, 128),
        2 if hsl => spec_hsl(mode, &HSL_VALS_QUICK[..], 3, 255, 131, 77, 255),
        0 => spec_channel(mode, 255, 255, 255, 255),
        1 => spec_channel(mode, 200, 255, 255, 128),
        2 => spec_channel(mode, 255, 131, 77, 255),
        _ => spec_random(mode, mix(seed, 0xB1E0 + mode as u64), false),
    };
    match guarded(|| render(&spec, mode)) {
        Ok(Ok(px)) => format!("probe:{:016x}", h(&format!("{:?}", px))),
        Ok(Err(f)) => format!("probe-err:{}", f.signature),
        Err((loc, msg)) => format!("panic:{}:{}", short_loc(&loc), msg.chars().take(60).collect::<String>()),
    }
}

pub fn obs_digest_main(seed: u64, n: u64) -> ! {
    let lines = par_chunks(16, n + BLEND_PROBES, Vec::new, |acc: &mut Vec<(u64, String)>, i| acc.push((i, if i < n { digest_case(seed, i) } else { digest_probe(i - n, seed) })));
    let mut all: Vec<(u64, String)> = lines.into_iter().flatten().collect();
    all.sort();
    for (i, d) in all {
        println!("{} {}", i, d);
    }
    std::process::exit(0)
}

fn run_digest(profile: &str, seed: u64, n: u64) -> Result<Vec<String>, String> {
    // "nologger" = the `checked` build run without a `log` backend installed (all others install one that formats
    // every record)
    let nolog = profile == "nologger";
    let profile = if nolog { "checked" } else { profile };
    // "noutils" = the `fast` profile built without the library's optional `utils` feature (own target dir)
    let exe = if profile == "noutils" { format!("{}/noutils/fast/vcheck", target_dir()) } else { format!("{}/{}/vcheck", target_dir(), profile) };
    let out = std::process::Command::new(&exe).arg("--obs-digest").arg(seed.to_string()).arg(n.to_string()).env("VERIF_LOGGER", if nolog { "off" } else { "on" }).output().map_err(|e| format!("cannot run {}: {}", exe, e))?;
    if !out.status.success() {
        return Err(format!("{} exited with {:?}", exe, out.status));
    }
    Ok(String::from_utf8_lossy(&out.stdout).lines().map(|l| l.to_string()).collect())
}

pub fn run(run: &mut Run) {
    run.rule = "cases: loadable files (well-formed, plus hostile files that were accepted) x a generated list of API calls (every accessor kind with in-range arguments) evaluated (a) in list order, in a seeded permuted order and on a second pass, (b) concurrently on a shared &AsepriteFile from T in 2..16 threads (barrier start, own permutation per thread), (c) on a second load of the same bytes (whole-API observation equal); (d) a seeded corpus (a fifth of it carrying odd bodies in chunks of the ignored types, a fifth non-zero z-index bytes; plus 76 blend probe sprites - channel-exhaustive squares, colour-grid blocks and random tuples for each of the 19 modes) is observed by four builds of the library (opt-level 3 with overflow checks + debug assertions, opt-level 3 without, opt-level 0 with, and opt-level 3 without the optional `utils` feature) and once more without a `log` backend installed (every other process installs one that formats each record) and the digests (including tile lookups at extreme coordinates) must be identical; (f) in fresh processes, 16 threads load and observe the same file as the first thing the process does (lazy one-time initialisation under contention) and must all see what a single-threaded load sees; (e) Send + Sync of AsepriteFile and its reference types is instantiated in a separate crate whose Send/Sync compile error is the violation. non-trivial: call list with >= 8 distinct calls including an image-producing call, T >= 2; distinct by file hash and schedule".into();
    run.assumptions = vec!["the harness does not control the thread schedule; (e) is decided by the compiler".into(), "Debug output is compared by length only (hash-map order is documented as arbitrary)".into()];
    // (e)
    match std::env::var("C16_TRAITS").unwrap_or_default().as_str() {
        "ok" => {
            run.direct(|| json!({"traits": "Send+Sync"}), Ok(Outcome::new(true, 0xe).label("send-sync-compiles").with_sample(json!("fn assert_send_sync<T: Send + Sync>() instantiated for AsepriteFile, Frame, Layer, Cel, Tilemap, Tileset, TilesetsById, ColorPalette, Tag, Slice, ExternalFilesById, UserData, PaletteMapper"))));
        }
        s if s.starts_with("fail:") => {
            let log = s[5..].to_string();
            let text = std::fs::read_to_string(&log).unwrap_or_default();
            run.direct(|| json!({"traits": "Send+Sync", "build_log": log}), Err(Failure::new("not-send-sync", "the sprite type (or a reference type) is no longer Send + Sync").with(json!({"compiler_output": text.chars().take(3000).collect::<String>()}))));
        }
        other => {
            run.inconclusive = Some(format!("Send+Sync crate was not built ({})", other));
        }
    }
    // (f) first use under contention, fresh processes
    run_first_use(run);
    // (a)-(c)
    let (lanes, cases) = if run.thorough() { (16, 4000) } else { (16, 150) };
    run_tapes(run, lanes, cases, 2000, &check);
    // (d)
    let n = if run.thorough() { 6000 } else { 300 };
    let seed = run.seed;
    let mut digests = vec![];
    for p in ["checked", "fast", "dev0", "noutils", "nologger"] {
        match run_digest(p, seed, n) {
            Ok(d) => digests.push((p, d)),
            Err(e) => {
                run.inconclusive = Some(format!("profile differential not run: {}", e));
            }
        }
    }
    if digests.len() == 5 {
        let mut cmp = 0u64;
        let mut loaded = 0u64;
        for i in 0..digests[0].1.len() {
            let a = &digests[0].1[i];
            cmp += 1;
            if a.contains(" ok:") {
                loaded += 1;
            }
            for (p, d) in &digests[1..] {
                // the build without the `utils` feature has no PaletteMapper: compare all but the last field
                let strip = |s: &String| -> String { if *p == "noutils" && s.contains(" ok:") { s.rsplitn(2, ':').nth(1).unwrap_or(s).to_string() } else { s.clone() } };
                if d.get(i).map(&strip) != Some(strip(a)) {
                    let f = Failure::new("profile-dependent", format!("case {} observed differently by builds: checked = {:?}, {} = {:?}", i, a, p, d.get(i))).with(json!({"seed": seed, "case": i}));
                    run.direct(|| json!({"digest_case": i, "digest_seed": seed, "digest_n": n}), Err(f));
                }
            }
        }
        run.extra.insert("profile_differential_cases".into(), json!(cmp));
        run.extra.insert("profile_differential_loaded".into(), json!(loaded));
    }
}

pub fn replay(case: &serde_json::Value) -> CheckResult {
    if let (Some(i), Some(s)) = (case.get("first_use_case").and_then(|x| x.as_u64()), case.get("digest_seed").and_then(|x| x.as_u64())) {
        let want = digest_case(s, i);
        let exe = std::env::current_exe().expect("exe");
        for _ in 0..40 {
            let out = std::process::Command::new(&exe).arg("--first-use").arg("observe").arg(s.to_string()).arg(i.to_string()).output().expect("spawn");
            let line = String::from_utf8_lossy(&out.stdout).lines().last().unwrap_or("").to_string();
            if line.matches(want.as_str()).count() != 16 {
                return Err(Failure::new("first-use-dependent", format!("alone {:?}, contended: {}", want, line)));
            }
        }
        return Ok(Outcome::new(true, 0));
    }
    if let (Some(i), Some(s)) = (case.get("digest_case").and_then(|x| x.as_u64()), case.get("digest_seed").and_then(|x| x.as_u64())) {
        let n = case.get("digest_n").and_then(|x| x.as_u64()).unwrap_or(u64::MAX);
        println!("digest in this build: {}", if i < n { digest_case(s, i) } else { digest_probe(i - n, s) });
        return Ok(Outcome::new(false, 0));
    }
    let tape = tape_from_case(case).ok_or_else(|| Failure::new("bad-replay", "no tape in replay file"))?;
    check_guarded(|| check(&tape))
}
