//! C13 — truncated files are rejected (every cut offset of every file).
use crate::encode::encode;
use crate::gen::{build_plan, build_sprite, GenCfg, Tape};
use crate::runner::*;
use crate::encode::Rng;
use asefile::AsepriteFile;
use serde_json::json;

pub fn cfg() -> GenCfg {
    let mut c = GenCfg::full();
    c.canvas_typ = 12;
    c.max_cel = 8;
    c.tile_aligned = false;
    c
}

fn check_prefix(bytes: &[u8], cut: usize) -> Result<(), Failure> {
    let r = guarded(|| AsepriteFile::read(&bytes[..cut]));
    match r {
        Ok(Err(_)) => Ok(()),
        Ok(Ok(f)) => Err(Failure::new("prefix-loaded", format!("prefix of {} bytes (file {} bytes) loaded as a sprite with {} frames, {} layers", cut, bytes.len(), f.num_frames(), f.num_layers()))),
        Err((loc, msg)) => Err(Failure::new(format!("prefix-panic:{}", short_loc(&loc)), format!("prefix of {} bytes panicked at {}: {}", cut, short_loc(&loc), msg))),
    }
}

fn check_prefix_file(bytes: &[u8], cut: usize, lane: u64) -> Result<(), Failure> {
    let dir = format!("{}/c13-scratch", target_dir());
    let _ = std::fs::create_dir_all(&dir);
    let path = format!("{}/{}-{}.ase", dir, std::process::id(), lane);
    std::fs::write(&path, &bytes[..cut]).map_err(|e| Failure::new("harness", format!("scratch write: {}", e)))?;
    let r = guarded(|| AsepriteFile::read_file(std::path::Path::new(&path)));
    let _ = std::fs::remove_file(&path);
    match r {
        Ok(Err(_)) => Ok(()),
        Ok(Ok(f)) => Err(Failure::new("prefix-loaded-read-file", format!("read_file of a {}-byte prefix (file {} bytes) loaded as a sprite with {} frames, {} layers", cut, bytes.len(), f.num_frames(), f.num_layers()))),
        Err((loc, msg)) => Err(Failure::new(format!("prefix-panic:{}", short_loc(&loc)), format!("read_file of a {}-byte prefix panicked at {}: {}", cut, short_loc(&loc), msg))),
    }
}

pub fn run(run: &mut Run) {
    run.rule = "files: well-formed generated sprites (encoded with random plans, no trailing garbage dependence: cuts range over 0..end of last frame as given by the encoder's field map) and the repository's golden files (end of last frame from the independent scanner). Every cut offset 0 <= c < L is loaded (files above 64 KiB: every offset in the first 4 KiB, every chunk/frame boundary +-8, and a seeded sample). Oracle: AsepriteFile::read(prefix) is Err - never Ok, never a panic. A case is one (file, cut); non-trivial: cut > 128 (past the header); distinct by (file hash, cut)".into();
    let nfiles = if run.thorough() { 6000 } else { 300 };
    let seed = run.seed;
    // build the file list deterministically from the seed
    let mut files: Vec<(String, Vec<u8>, usize, Vec<usize>)> = vec![];
    for i in 0..nfiles {
        let mut r = Rng(lane_seed(seed, "C13", i as u64));
        let tape: Vec<u32> = (0..700).map(|_| r.next() as u32).collect();
        let mut t = Tape::new(&tape);
        let s = build_sprite(&mut t, &cfg());
        let mut plan = build_plan(&mut t);
        if i % 9 == 4 {
            // a frame with several hundred chunks (bulk paths)
            plan.pad_to = ((s.frames.len() - 1) as u32, 256 + (i as u32 % 7) * 40);
        }
        let e = encode(&s, &plan);
        let l = e.last_frame_end();
        let bounds: Vec<usize> = e.chunks.iter().flat_map(|c| [c.start, c.end]).chain(e.frame_starts.iter().copied()).collect();
        // every third file gets one more chunk of a rotating kind as the very last chunk of its last frame (what a
        // reader may skip, ignore or treat leniently must still be there in full)
        if i % 3 == 1 {
            use crate::encode::*;
            use crate::model::{ExtFile, LegacyPacket, LegacyPalette, Slice, UserData};
            let extra: Vec<u8> = {
                let lp = |kind: u16| LegacyPalette { kind, packets: vec![LegacyPacket { skip: 0, colors: (0..40u8).map(|k| [k, 63 - k, k / 2]).collect() }] };
                let w = match (i / 3) % 10 {
                    0 => legacy_chunk(&lp(0x0004)),
                    1 => legacy_chunk(&lp(0x0011)),
                    2 => user_data_chunk(&UserData { text: None, color: Some([1, 2, 3, 4]) }),
                    3 => user_data_chunk(&UserData { text: Some("tail".into()), color: None }),
                    4 => slice_chunk(&Slice { name: "tail".into(), flags: 0, keys: vec![], user_data: None }, &mut None),
                    5 => W::new(0x2017),
                    6 => { let mut w = W::new(0x2006); w.u32(Kind::Flags, "f", 0); w.reserved(32, &mut None); w }
                    7 => { let mut w = W::new(0x2016); w.reserved(16, &mut None); w.string("n", "mask"); w }
                    8 => color_profile_chunk(1, 0, 0),
                    _ => ext_files_chunk(&[ExtFile { id: 7, name: "x.aseprite".into() }], &mut None),
                };
                finish_chunk(w, 0, &mut Rng(1)).bytes
            };
            let mut p = super::robust::to_pieces(&e);
            p.frames.last_mut().unwrap().1.push(extra);
            p.trailing.clear();
            let b2 = super::robust::assemble(&p, true);
            let sc = crate::scan::scan(&b2);
            if sc.complete && AsepriteFile::read(&b2[..]).is_ok() {
                let bounds2: Vec<usize> = sc.chunks.iter().flat_map(|c| [c.start, c.end]).chain(sc.frames.iter().map(|f| f.0)).collect();
                files.push((format!("generated-{}+tail-chunk", i), b2, sc.last_frame_end, bounds2));
                continue;
            }
        }
        files.push((format!("generated-{}", i), e.bytes, l, bounds));
    }
    for (name, b) in super::robust::golden_seeds() {
        let sc = crate::scan::scan(&b);
        if !sc.complete || AsepriteFile::read(&b[..]).is_err() {
            continue;
        }
        let bounds: Vec<usize> = sc.chunks.iter().flat_map(|c| [c.start, c.end]).chain(sc.frames.iter().map(|f| f.0)).collect();
        files.push((name, b, sc.last_frame_end, bounds));
    }
    // the full file must load (otherwise the base is not a valid file and says nothing)
    let mut work: Vec<(u32, u32)> = vec![];
    for (fi, (name, b, l, bounds)) in files.iter().enumerate() {
        if AsepriteFile::read(&b[..]).is_err() {
            run.direct(|| json!({"file": name}), Err(Failure::new("base-not-loadable", format!("well-formed base file {} does not load", name)).with(json!({"hex": hex(&b[..b.len().min(4000)])}))));
            continue;
        }
        if *l <= 65536 {
            for c in 0..*l {
                work.push((fi as u32, c as u32));
            }
        } else {
            let mut cuts: Vec<usize> = (0..4096.min(*l)).collect();
            for bd in bounds {
                for d in 0..=8usize {
                    cuts.push(bd.saturating_sub(d));
                    cuts.push(bd + d);
                }
            }
            let mut r = Rng(lane_seed(seed, "C13-sample", fi as u64));
            for _ in 0..2000 {
                cuts.push(r.below(*l as u64) as usize);
            }
            cuts.retain(|c| c < l);
            cuts.sort();
            cuts.dedup();
            for c in cuts {
                work.push((fi as u32, c as u32));
            }
        }
    }
    let hashes: Vec<u64> = files.iter().map(|f| hash_bytes(&f.1)).collect();
    let results = par_chunks(
        16,
        work.len() as u64,
        || (Stats::default(), Vec::<Violation>::new()),
        |acc, i| {
            let (fi, c) = work[i as usize];
            let (name, b, _, _) = &files[fi as usize];
            match check_prefix(b, c as usize) {
                Ok(()) => {
                    let mut o = Outcome::new(c > 128, hashes[fi as usize] ^ crate::encode::mix(c as u64, 99));
                    if c > 128 && acc.0.samples.len() < 2 && i % 1009 == 0 {
                        o.sample = Some(json!({"file": name, "file_len": b.len(), "cut": c}));
                    }
                    acc.0.record(&o);
                }
                Err(f) => {
                    acc.0.evaluations += 1;
                    if acc.1.len() < 2 {
                        acc.1.push(Violation { case: json!({"hex": hex(&b[..c as usize]), "file": name, "cut": c, "full_len": b.len()}), failure: f });
                    }
                }
            }
        },
    );
    for (st, vs) in results {
        run.stats.merge(st);
        for v in vs {
            if run.is_known(&v.failure.signature) {
                continue;
            }
            if !run.violations.iter().any(|x| x.failure.signature == v.failure.signature) {
                run.violations.push(v);
            }
        }
    }
    // files with a chunk payload larger than 1 MiB (raw, and compressed-but-incompressible); their prefixes are
    // loaded in isolated workers so that a reader that spins at end of input is reported, not inherited
    {
        use crate::model::*;
        use crate::worker::*;
        let pool = Pool::new(16);
        pool.set_timeout(30_000);
        let mut bigs: Vec<(String, Vec<u8>, usize, Vec<usize>)> = vec![];
        for (k, compress) in [(0u64, 0u8), (1, 1)] {
            let mut s = Sprite::empty(16, 16, Fmt::Rgba);
            s.layers.push(Layer { flags: 3, kind: LayerKind::Image, level: 0, blend: 0, opacity: 255, name: "big".into(), user_data: None });
            let (w, h) = (600u16, 450u16 + k as u16);
            let mut r = Rng(lane_seed(seed, "C13-big", k));
            let pixels: Vec<u8> = (0..w as usize * h as usize * 4).map(|_| r.next() as u8).collect();
            s.frames[0].cels.push(Cel { layer: 0, x: 0, y: 0, opacity: 255, content: CelContent::Image { w, h, pixels }, user_data: None });
            s.frames.push(Frame { duration: 5, cels: vec![] });
            let mut plan = crate::encode::Plan::plain();
            plan.compress = compress;
            plan.zlevel = 1;
            let e = encode(&s, &plan);
            let l = e.last_frame_end();
            let bounds: Vec<usize> = e.chunks.iter().flat_map(|c| [c.start, c.end]).collect();
            bigs.push((format!("big-chunk-{}", if compress == 0 { "raw" } else { "zlib" }), e.bytes, l, bounds));
        }
        let mut bwork: Vec<(usize, usize)> = vec![];
        for (bi, (_, _, l, bounds)) in bigs.iter().enumerate() {
            let mut cuts: Vec<usize> = vec![0, 128, 200, l - 1, l - 2, l - 17, l / 2, l / 3, 1 << 20, (1 << 20) + 300, (1 << 20) - 1];
            for bd in bounds {
                for d in 0..3usize {
                    cuts.push(bd.saturating_sub(d));
                    cuts.push(bd + d);
                }
            }
            let mut r = Rng(lane_seed(seed, "C13-bigcuts", bi as u64));
            for _ in 0..if run.thorough() { 400 } else { 60 } {
                cuts.push(r.below(*l as u64) as usize);
            }
            cuts.retain(|c| c < l);
            cuts.sort();
            cuts.dedup();
            for c in cuts {
                bwork.push((bi, c));
            }
        }
        let bres = par_chunks(
            16,
            bwork.len() as u64,
            || (Stats::default(), Vec::<Violation>::new()),
            |acc, i| {
                let (bi, c) = bwork[i as usize];
                let (name, b, _, _) = &bigs[bi];
                let v = pool.run((i % 16) as usize, &b[..c], 0, i);
                let fail = match &v {
                    Verdict::Done { load: LoadV::Err(_), .. } => None,
                    Verdict::Done { load: LoadV::Ok, .. } => Some(Failure::new("prefix-loaded", format!("a {}-byte prefix of {} ({} bytes) loaded as a sprite", c, name, b.len()))),
                    Verdict::Done { load: LoadV::Panic { loc, msg }, .. } => Some(Failure::new(format!("prefix-panic:{}", loc), format!("a {}-byte prefix of {} panicked at {}: {}", c, name, loc, msg))),
                    Verdict::Timeout { cpu_ms, .. } if *cpu_ms >= 20_000 => Some(Failure::new("prefix-no-return", format!("loading a {}-byte prefix of {} did not return after {} ms of CPU time", c, name, cpu_ms))),
                    Verdict::Timeout { .. } => None,
                    other => Some(Failure::new("prefix-died", format!("loading a {}-byte prefix of {}: {:?}", c, name, other))),
                };
                match fail {
                    None => acc.0.record(&Outcome::new(c > 128, hash_bytes(&b[..64]) ^ crate::encode::mix(c as u64, 0xB16)).label("big-chunk-file")),
                    Some(f) => {
                        acc.0.evaluations += 1;
                        if acc.1.len() < 2 && !acc.1.iter().any(|x| x.failure.signature == f.signature) {
                            acc.1.push(Violation { case: json!({"big_file": name, "cut": c, "note": "regenerate with the same seed; the prefix is too large to embed"}), failure: f });
                        }
                    }
                }
            },
        );
        for (st, vs) in bres {
            run.stats.merge(st);
            for v in vs {
                if !run.is_known(&v.failure.signature) && !run.violations.iter().any(|x| x.failure.signature == v.failure.signature) {
                    run.violations.push(v);
                }
            }
        }
        run.extra.insert("big_chunk_prefixes".into(), json!(bwork.len()));
    }
    // the path-based entry point on a sample of cuts of every file (chunk boundaries +-1 and 24 seeded cuts)
    let mut fwork: Vec<(u32, u32)> = vec![];
    for (fi, (_, b, l, bounds)) in files.iter().enumerate() {
        if AsepriteFile::read(&b[..]).is_err() {
            continue;
        }
        let mut cuts: Vec<usize> = vec![0, 1, 127, 128, 129, l - 1, l.saturating_sub(2), l.saturating_sub(5)];
        for bd in bounds.iter().take(40) {
            cuts.push(bd.saturating_sub(1));
            cuts.push(*bd);
            cuts.push(bd + 1);
        }
        let mut r = Rng(lane_seed(seed, "C13-readfile", fi as u64));
        for _ in 0..24 {
            cuts.push(r.below(*l as u64) as usize);
        }
        cuts.retain(|c| c < l);
        cuts.sort();
        cuts.dedup();
        for c in cuts {
            fwork.push((fi as u32, c as u32));
        }
    }
    let fres = par_chunks(
        16,
        fwork.len() as u64,
        || (Stats::default(), Vec::<Violation>::new()),
        |acc, i| {
            let (fi, c) = fwork[i as usize];
            let (name, b, _, _) = &files[fi as usize];
            match check_prefix_file(b, c as usize, i % 16) {
                Ok(()) => acc.0.record(&Outcome::new(c > 128, hashes[fi as usize] ^ crate::encode::mix(c as u64, 0xF11E)).label("entry:read_file")),
                Err(f) => {
                    acc.0.evaluations += 1;
                    if acc.1.len() < 2 {
                        acc.1.push(Violation { case: json!({"hex": hex(&b[..c as usize]), "file": name, "cut": c, "full_len": b.len(), "read_file": true}), failure: f });
                    }
                }
            }
        },
    );
    for (st, vs) in fres {
        run.stats.merge(st);
        for v in vs {
            if !run.is_known(&v.failure.signature) && !run.violations.iter().any(|x| x.failure.signature == v.failure.signature) {
                run.violations.push(v);
            }
        }
    }
    run.extra.insert("read_file_prefixes".into(), json!(fwork.len()));
    run.extra.insert("files".into(), json!(files.len()));
    run.extra.insert("distinct_files".into(), json!(hashes.iter().collect::<std::collections::HashSet<_>>().len()));
    run.exhaustive = Some(true);
}

pub fn replay(case: &serde_json::Value) -> CheckResult {
    let b = unhex(case.get("hex").and_then(|h| h.as_str()).unwrap_or(""));
    if case.get("read_file").and_then(|x| x.as_bool()).unwrap_or(false) {
        return check_prefix_file(&b, b.len(), 99).map(|_| Outcome::new(true, 0));
    }
    check_prefix(&b, b.len()).map(|_| Outcome::new(true, 0))
}
