#!/bin/bash
# One-off offline build of everything the checks need.
set -e
export CARGO_NET_OFFLINE=true
cd "$(dirname "$0")/harness"
cargo build --quiet --profile checked
cargo build --quiet --profile fast
cargo build --quiet --profile dev0
cargo build --quiet --profile fast --no-default-features --target-dir target/noutils
(cd c16_traits && cargo check --quiet --target-dir ../target/c16)
echo "setup ok"
