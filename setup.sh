#!/bin/bash
# One-off offline build of everything the checks need.
set -e
export CARGO_NET_OFFLINE=true
cd "$(dirname "$0")/harness"
cargo build --quiet --profile checked
echo "setup ok"
