#!/usr/bin/env python3
# Regenerates /verif/MANIFEST.json (kept as a script so the manifest stays consistent).
import json, os
HERE = os.path.dirname(os.path.abspath(__file__))
m = {
 "version": 1,
 "setup_cmd": "./setup.sh",
 "hooks": {
  "guard": "asefile_verif",
  "enable": "no source hooks exist: the harness depends on /repo by path (features=[\"utils\"]); every observation point is public API, the allocator and the Read implementations are supplied by the harness, profile flags (overflow-checks, debug-assertions, opt-level) come from the harness's own Cargo profiles. The guard name is reserved and unused.",
  "baseline_off_cmd": "cd /repo && cargo test --workspace --no-fail-fast --offline",
  "source_commits": [],
  "add_only": True
 },
 "engines": [
  {"name": "vcheck", "path": "harness", "serves_properties": ["C%02d" % i for i in range(1, 20)],
   "kind_free_text": "Rust binary (proptest 1.11 TestRunner from a binary, 16 lanes, fixed seeds, shrinking): tape-driven sprite/plan/mutation generators built by construction, model+encoder with field map, explicit oracles per property, isolated worker processes with a counting/denying allocator, C++ Aseprite blend reference linked via cc"},
  {"name": "libfuzzer", "path": "harness/fuzz", "serves_properties": ["C01", "C02", "C04", "C05", "C06", "C07", "C08", "C09", "C10", "C11", "C15", "C18", "C19"],
   "kind_free_text": "cargo-fuzz targets used only by thorough tiers (coverage-guided, oracle inside the target): bytes_load_use and structured_load_use (C04/C05: load + exercise; C04 also runs bytes_load_use built with AddressSanitizer), tape_props (the tape-driven semantic properties: input = generator tape, the property's own generator and oracle run in the target; artifacts are re-judged and shrunk by vcheck)"}
 ],
 "checks": [],
 "not_applicable": [],
 "notes": "Driver: ./check.sh <ID> quick|thorough (exit 0 held / 1 VIOLATION / 2 inconclusive or harness fault). VERIF_SEED selects the seed (default 1). Replay: ./check.sh <ID> --replay <file>. Known findings: known_findings.txt (only 'fixed:' records at present)."
}
P = {
 "C01": ("exploration", "Generated (sprite model, encoding plan) pairs are encoded by the harness's own writer, loaded, and every structural accessor is compared with the model's projection. Held on everything generated; no absence claim.", "Trusts the harness encoder's reading of the Aseprite file specification; layer flags compared on the 7 defined bits only.", "property-based testing: model round-trip (proptest tape generator + independent encoder, shrinking)"),
 "C02": ("exploration", "Generated layer stacks are rendered and compared with a bottom-to-top fold of a two-layer blend obtained from the library through probe sprites; isolates stacking, visibility, clipping, indexing, opacity product and link/tilemap resolution from blend arithmetic.", "The two-layer full-canvas blend is taken from the library (its arithmetic is C03/C17's subject); transparent pixels compare equal regardless of RGB.", "property-based testing: metamorphic/differential oracle (fold of library probe renders vs Frame::image)"),
 "C03": ("exploration", "Bit-exact differential against Aseprite's C++ blend functions over channel-exhaustive squares, HSL grids, random and boundary-biased tuples; thorough tier exhausts the (b,s,Ba,Sa) space per separable mode at full opacity.", "Reference = verbatim excerpts kept in the repository + transcription of upstream blend_funcs.cpp, re-validated on every run against the 20 Aseprite-exported blend PNGs; opacity<255 paths rest on the verbatim wrapper code.", "differential testing against a C++ reference over enumerated and generated inputs (bounded exhaustive + random)"),
 "C04": ("exploration", "Hostile inputs (model tweaks, boundary-value field patches, structural edits, truncations, bit flips), exhaustive single-field sweeps and stress shapes are loaded in isolated workers on 2 MiB threads with overflow checks and debug assertions; any panic, process death or absurd reservation is a violation.", "A load that burns >= 20 s of CPU without returning is reported as a violation (no-return rule); a mere wall-clock timeout is inconclusive. A pass of the corpus also runs on the 'dev0' build (library at opt-level 0).", "fuzzing/property-based testing: field-directed corruption sweeps + generated hostile files + libFuzzer (thorough), crash/abort oracle in isolated workers"),
 "C05": ("exploration", "Every input of the C04 corpus that loads is followed by a seeded permutation of every public accessor with in-range arguments; panics, process deaths and undocumented image dimensions are violations.", "Work guard skips rendering above stated pixel budgets; out-of-range arguments never used.", "fuzzing/property-based testing: load-then-exercise oracle over corrupted-but-accepted inputs"),
 "C06": ("exploration", "Cel accessors and images are compared with a direct formula written from the statement (no blend code) over all pixel formats, palettes, transparent indices, background flags, storage kinds, offsets, opacities and link targets.", "Transparent pixels compare equal regardless of RGB.", "property-based testing: reference-model oracle"),
 "C07": ("exploration", "One model, two independently drawn vectors of neutral encoding choices; both must load and be observed identically through the whole API.", "Only equivalences listed in the statement are varied.", "property-based testing: metamorphic relation over encodings"),
 "C08": ("exploration", "Tilemap size/offsets/lookups are compared with the model, and tilemap image, tile images and the stacked tileset image are related to each other pixel by pixel (also for linked cels on tilemap layers where a reader accepts them).", "Cells with flip/rotate bits are excluded from the image relation only.", "property-based testing: relational + model oracle"),
 "C09": ("exploration", "Every forest of up to 8 layers (quick) / 10 layers (thorough) times every visible-flag assignment is enumerated; parents, visibility and frame pixels are compared with a model; plus random forests and deep chains.", "Bounded exhaustive sub-space stated in evidence; beyond it random sampling.", "bounded exhaustive enumeration + property-based testing against a model"),
 "C10": ("exploration", "Every valid chunk word up to length 6 (quick) / 7 (thorough) over the 13-symbol alphabet is enumerated and a context state machine written from the statement predicts every entity's record; plus random long words.", "Up to three tags chunks per word (a reader may keep all tags or the last chunk's; each reported tag must carry its own record), tags chunks and layers in frame 0 (conformance side conditions).", "bounded exhaustive enumeration + model-based (state machine) testing"),
 "C11": ("exploration", "Generated new/legacy palette chunks in both orders are decoded and compared with a model; indexed sprites with missing palette or out-of-palette pixel indices (cel or tileset) must fail to load.", "6-bit scaling is pinned only at 0 and 63, strictly increasing, within 2/255 of linear.", "property-based testing: reference-model oracle with negative cases"),
 "C12": ("exploration", "Counting global allocator in deny mode around AsepriteFile::read: live bytes never exceed 64 MiB + 8192 x bytes delivered, over inflation sweeps of every size/count field, deflate bombs and table-amplification shapes.", "A universally quantified bound is only sampled; realloc counted by delta.", "fuzzing/property-based testing with an allocator-level invariant oracle"),
 "C13": ("fault_enumeration", "Every cut offset (every crash point) of every generated well-formed file and of the golden files is loaded and must be rejected.", "Files above 64 KiB are sampled at chunk boundaries +-8 and 2000 seeded offsets.", "exhaustive fault-point enumeration over generated files"),
 "C14": ("fault_enumeration", "Generated files x >= 40 read schedules (short reads, Interrupted bursts, BufReader capacities, real file) must give the in-memory observation; a hard I/O error injected at every byte offset must come back as the IoError variant carrying the injected error as source.", "Quick tier: 2 error kinds per file; thorough: 8.", "fault injection: exhaustive error offsets x generated reader schedules"),
 "C15": ("exploration", "For generated bases, every unsupported feature is switched on at every position where it can occur; the base must load and every variant must be refused.", "Refusal class is not checked (statement fixes refusal only).", "property-based testing: exhaustive per-position feature injection on generated bases"),
 "C16": ("exploration", "Generated API call lists are evaluated in order, permuted, repeated, concurrently from 2..16 threads and on a second load; four builds of the library (opt3+checks, opt3, opt0+checks, without the utils feature) and a run without a log backend must observe a seeded corpus identically; fresh processes in which 16 threads load the same file as their first action must agree with a single-threaded load; Send+Sync is instantiated in a separate crate.", "Thread schedule is not controlled; the Send+Sync clause is decided by the compiler.", "property-based testing over call histories + cross-profile differential + compile-time trait assertion"),
 "C17": ("exploration", "Mode-independent alpha and identity laws are checked per tuple on the C03 enumerations, with overflow checks and debug assertions enabled.", "Normal-mode alpha is taken from a sibling Normal render by the library.", "property-based testing: algebraic laws over enumerated and generated tuples"),
 "C18": ("exploration", "Generated images, palettes (loaded from generated files), mapping options and queries are checked against the documented behaviour of extrude_border, PaletteMapper::lookup and to_indexed_image.", "Mixed occurrences (<256 and >=256) accept either answer the statement allows.", "property-based testing: reference-model oracle"),
 "C19": ("exploration", "For every frame and layer of generated sprites (and golden files) the three cel routes are compared field by field and by image; single-visible-layer frames equal the cel image; tilemap image equals its cel image.", "Transparent pixels compare equal regardless of RGB.", "property-based testing: relational oracle"),
}
for pid in sorted(P):
    level, text, note, tech = P[pid]
    if pid in ("C01", "C02", "C06", "C07", "C08", "C09", "C10", "C11", "C15", "C18", "C19"):
        tech += "; thorough tier adds coverage-guided fuzzing (libFuzzer) over generator tapes with the same oracle"
    m["checks"].append({
        "property_id": pid,
        "quick_cmd": f"./check.sh {pid} quick",
        "thorough_cmd": f"./check.sh {pid} thorough",
        "evidence_file": f"/verif/evidence/{pid}.json",
        "replay_cmd_template": f"./check.sh {pid} --replay {{path}}",
        "engine": "vcheck",
        "level_claimed": {"category": level, "text": text, "design_ref": f"DESIGN.md section 3, {pid}"},
        "level_note": note,
        "technique": tech,
    })
json.dump(m, open(os.path.join(HERE, "MANIFEST.json"), "w"), indent=1)
print("wrote MANIFEST.json with", len(m["checks"]), "checks")
