#!/usr/bin/env python3
# Regenerates the seeded-changes table in DESIGN.md from seeded/results.json, seeded/history.json and the meta files.
import json, re, os
V = os.path.dirname(os.path.abspath(__file__))
hist = json.load(open(f'{V}/seeded/history.json'))
res = json.load(open(f'{V}/seeded/results.json'))
rows = []; n = init = det = bydesign = 0
for name in sorted(res):
    mp = f'{V}/seeded/{name}/meta.json'
    m = json.load(open(mp))
    m['detection_history'] = hist.get(name, 'detected at first run')
    json.dump(m, open(mp, 'w'), indent=1)
    q = res[name].get('quick', {})
    pr = m['breaks_property']
    # detected by the owning property's check, or (noted in history) by another property's check
    best = None
    for p, r in q.items():
        if r.get('exit') == 1 and (best is None or p == pr):
            best = (p, r)
    r = q.get(pr, {}) if best is None else best[1]
    who = pr if best is None else best[0]
    sig = (r.get('lines') or [''])[0]
    sig = sig[sig.find('[') + 1:sig.find(']')] if '[' in sig else ''
    if '/src/' in sig:
        sig = sig.split(':/')[0].split(':')[0] + ':src/' + sig.split('/src/')[-1] if not sig.startswith('history') else 'history-dependent:...src/' + sig.split('/src/')[-1]
    summ = m['summary'].replace('|', '/').replace('\n', ' ')
    n += 1
    if m['detection_history'].startswith('detected at first run'): init += 1
    if m['detection_history'].startswith('NOT'): bydesign += 1
    if best is not None: det += 1
    rows.append(f"| {name} | {pr} | {summ[:140]}{'...' if len(summ) > 140 else ''} | {'detected by ' + who if best else 'not detected'} `{sig}` | {m['detection_history']} |")
table = "| seed | property | change (abridged) | quick check result (signature) | history |\n|---|---|---|---|---|\n" + "\n".join(rows)
p = f'{V}/DESIGN.md'
s = open(p).read()
a = s.index("<!-- seeded-table-begin -->"); b = s.index("<!-- seeded-table-end -->") + len("<!-- seeded-table-end -->")
tail = s[b:]
tail = re.sub(r"\n\nOf the \d+ seeded changes.*?as stated\.", "", tail, flags=re.S)
rounds = 21
summary = (f"\n\nOf the {n} seeded changes ({rounds} rounds of 19 authors; later rounds were told what earlier rounds had done and asked for something different in kind - "
 "round 3 for small silent effects at boundaries and in rare combinations, round 4 for defects that depend on a relationship between values, an order of three or more events, or state left behind, "
 "round 5 for rarely used accessors, old-style files, second/third elements and asymmetries between code paths that should agree, round 6 for histories of calls and loads, concurrency, build-configuration dependence and three-condition coincidences, round 7 for inputs larger or more complex than small generators produce and for thresholds hidden in the code, round 8 free-hand - most of its authors chose first-use races, caches shared between threads, logging side effects and error paths, round 9 for realistic maintenance commits (optimisations, storage migrations, de-duplication, tolerance for third-party files, new accessors) with one honest oversight, round 10 likewise (error-handling refactors, lazy decoding, narrower integer types, new format fields such as the cel z-index, de-duplicated decoders), round 11 free-hand with two suggestions (code that is right for everything accepted today but wrong for what it newly accepts; triggers that are quantities rather than shapes), round 12 for small boring commits (clippy-style rewrites, hoisted invariants, merged conditions, reordered statements, a changed default), round 13 concentrated on the properties whose checks had missed most often (C16 x4, C09 x4, C04 x4, C12 x3, C17 x2, C18 x2, each author with an assigned area), round 14 one more author for each of the other thirteen properties and two each for C04, C12 and C16 with briefs such as 'two cooperating fields', 'unbounded work', 'debug/release differences other than overflow', round 15 free-hand again with a preference for silent effects triggered by a combination of ordinary conditions, round 16 asked for whatever file, function, format field or accessor the earlier changes had not touched, round 17 for commits forced by a dependency or toolchain upgrade, an issue report or a tidy-up PR, round 18 for the public API surface (trait impls, protocols, derived values) and interactions between two features, round 19 for a value computed in two places that must agree, something wrong only for the second or later item of a kind, or a slip in reading two adjacent fields, round 20 for the exact edge of a documented range, a helper shared by two callers and right for one, or a fast path that skips a step, round 21 for something defined in one frame and touched again in a later one, width or sign conversions at accessor boundaries, or results right per item and wrong in aggregate), "
 f"{init} were detected by the checks as they stood when the change arrived. {n - init - bydesign} were missed at first (two reported only as inconclusive) and each led to the strengthening named in the last column; "
 f"after those, {det} of {n} are detected by a quick tier (the owning property's, except where the last column names another property's check; rounds 1-3 also under VERIF_SEED=5). "
 f"{bydesign} (C07-c, C17-e and C02-t - the same idea from three independent authors -, C02-h, C10-h, C17-v, C03-w, C02-x and C13-l) are deliberately not detected: the first eight follow (or presuppose) the format more closely than the library does today, the last one only shows on a file outside C13's quantifier; none is a violation of the properties as stated.")
s = s[:a] + "<!-- seeded-table-begin -->\n" + table + "\n<!-- seeded-table-end -->" + summary + tail
open(p, 'w').write(s)
print(n, init, det, bydesign)
